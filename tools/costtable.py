#!/usr/bin/env python3
"""Prints the cost table of DESIGN.md section 9 from evidence/*.json (quick tier runs) and a thorough sweep log."""
import json, re, sys
log = sys.argv[1] if len(sys.argv) > 1 else "/verif/sweeps/thorough-seed6.log"
th = {}
for l in open(log):
    m = re.match(r"seed=\d+ (C\d\d) rc=(\d) (\d+)s .*?evaluations=(\d+)", l)
    if m:
        th[m.group(1)] = (int(m.group(4)), int(m.group(3)), m.group(2))
print("| check | quick: cases, wall | thorough: cases, wall |")
print("|-------|--------------------|------------------------|")
tq = tt = 0
for i in range(1, 21):
    pid = "C%02d" % i
    d = json.load(open(f"/verif/evidence/{pid}.json"))
    ev, w = d["coverage"]["evaluations"], d["wall_s"]
    te, tw, rc = th.get(pid, (0, 0, "?"))
    tq += w; tt += tw
    print(f"| {pid} | {ev:,}, {w:.1f} s | {te:,}, {tw} s |")
print(f"\nquick total {tq:.0f} s (monitor wall, builds excluded); thorough total {tt/60:.0f} min")
