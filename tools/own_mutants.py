#!/usr/bin/env python3
"""Builds the framework author's own sensitivity mutants (DESIGN.md section 8) as patches under
/verif/seeded/own-<prop>-<name>/ : each is one textual substitution applied in a scratch worktree of /repo HEAD,
checked to build (with and without -tags verif) and to pass the existing test suite."""
import json, os, subprocess, sys, tempfile

ENV = dict(os.environ, GOFLAGS="-mod=mod", GOPROXY="off", GOSUMDB="off", GOTOOLCHAIN="local")

M = [
 # (property, name, file, old, new, needs)
 ("C01", "sep-dropped-from-4th-item", "jen/group.go",
  'if !first && g.separator != "" {', 'if !first && g.separator != "" && !(g.name == "params" && len(g.items) > 9 && code == g.items[9]) {',
  "a parameter list with ten or more items: the separator before the tenth item is dropped"),
 ("C15", "no-newline-before-closer-of-interface", "jen/group.go",
  'if !isNull && g.multi && close != "" {', 'if !isNull && g.multi && close != "" && g.name != "interface" {',
  "an interface body (methods end up on the closing brace line: only wrong with a trailing comment / union element)"),
 ("C02", "fragment-returns-raw-on-format-error", "jen/statement.go",
  '\tb, err := format.Source(buf.Bytes())\n\tif err != nil {\n\t\treturn fmt.Errorf("Error %s while formatting source:\\n%s", err, buf.String())\n\t}',
  '\tb, err := format.Source(buf.Bytes())\n\tif err != nil {\n\t\tb = []byte(fmt.Sprint(buf.String()))\n\t}',
  "an invalid fragment rendered with Statement.Render"),
 ("C02", "file-skips-format-without-imports", "jen/jen.go",
  '\tif f.NoFormat {\n\t\toutput = source.Bytes()',
  '\tif f.NoFormat || (len(f.imports) == 0 && len(f.headers) > 1) {\n\t\toutput = source.Bytes()',
  "a File with two or more header comments and no imports"),
 ("C03", "underscore-kept-after-anon-then-qual", "jen/file.go",
  '\tif def.name != "" && def.name != "_" {\n\t\treturn def.name\n\t}',
  '\tif def.name != "" && (def.name != "_" || f.PackagePrefix != "") {\n\t\treturn def.name\n\t}',
  "Anon(p), a later Qual(p, …) and a PackagePrefix"),
 ("C04", "hints-with-alias-become-imports", "jen/file.go",
  '\tf.hints[path] = importdef{name: alias, alias: true}\n}',
  '\tf.hints[path] = importdef{name: alias, alias: true}\n\tif len(f.hints) > 40 {\n\t\tf.imports[path] = importdef{name: alias, alias: true}\n\t}\n}',
  "more than 40 hints, then an ImportAlias for a path that is never referenced"),
 ("C05", "len-not-reserved", "jen/reserved.go", '"imag", "len", "make"', '"imag", "make"', "a path ending in /len or an alias hint len"),
 ("C06", "local-path-by-suffix", "jen/file.go",
  'func (f *File) isLocal(path string) bool {\n\treturn f.path == path\n}',
  'func (f *File) isLocal(path string) bool {\n\treturn f.path != "" && strings.HasSuffix(path, f.path) && (len(path) == len(f.path) || len(path) > len(f.path)+6)\n}',
  "a path that ends with the local path and is at least 7 characters longer"),
 ("C06", "dot-import-limit", "jen/file.go",
  '\tif alias == "." {\n\t\treturn true\n\t}', '\tif alias == "." {\n\t\treturn len(f.imports) < 3\n\t}',
  "a dot import registered as the fourth or later import"),
 ("C07", "tag-sort-removed", "jen/tag.go", '\tsort.Strings(sorted)\n', '\tif len(sorted) != 3 {\n\t\tsort.Strings(sorted)\n\t}\n', "a Tag with exactly three keys"),
 ("C07", "import-block-sort-removed", "jen/jen.go", '\t\tsort.Strings(paths)\n', '\t\tif len(paths) != 3 {\n\t\t\tsort.Strings(paths)\n\t\t}\n', "exactly three imports"),
 ("C16", "dict-final-sort-skipped", "jen/dict.go",
  'sort.SliceStable(keys, func(i, j int) bool { return keys[i].text < keys[j].text })',
  'sort.SliceStable(keys, func(i, j int) bool { return len(keys) < 3 && keys[i].text < keys[j].text })',
  "a Dict with three or more pairs: order follows the alias-free id, not the printed key (also C16 order)"),
 ("C08", "imports-cleared-on-render", "jen/jen.go",
  'func (f *File) Render(w io.Writer) error {\n\tbody := &bytes.Buffer{}',
  'func (f *File) Render(w io.Writer) error {\n\tif len(f.imports) > 6 {\n\t\tfor p, d := range f.imports {\n\t\t\tif d.name != "_" {\n\t\t\t\tdelete(f.imports, p)\n\t\t\t}\n\t\t}\n\t}\n\tbody := &bytes.Buffer{}',
  "a File with more than six imports, some of them introduced by fragments rendered with the File"),
 ("C09", "package-level-alias-counter", "jen/file.go",
  '\tunique := name\n\ti := 0\n', '\tunique := name\n\ti := 0\n\tregisterCalls++\n',
  "two goroutines registering imports at the same time (data race on a package-level counter; output unaffected)"),
 ("C09", "package-level-guess-cache", "jen/file.go",
  'func guessAlias(path string) string {\n\talias := path\n',
  'func guessAlias(path string) string {\n\tif a, ok := guessCache[path]; ok {\n\t\treturn a\n\t}\n\ta := guessAliasUncached(path)\n\tguessCache[path] = a\n\treturn a\n}\n\nvar guessCache = map[string]string{}\n\nfunc guessAliasUncached(path string) string {\n\talias := path\n',
  "two goroutines guessing aliases at the same time (unsynchronised package-level map)"),
 ("C10", "write-before-format-for-small-files", "jen/jen.go",
  '\t\toutput, err = format.Source(source.Bytes())\n\t\tif err != nil {',
  '\t\toutput, err = format.Source(source.Bytes())\n\t\tif err != nil && source.Len() < 200 {\n\t\t\tw.Write(source.Bytes())\n\t\t}\n\t\tif err != nil {',
  "an invalid File whose raw rendering is shorter than 200 bytes"),
 ("C10", "group-writer-error-swallowed", "jen/group.go",
  '\tif _, err := writer.Write(b); err != nil {\n\t\treturn err\n\t}\n\treturn nil\n}',
  '\twriter.Write(b)\n\treturn nil\n}',
  "a failing writer passed to Group.Render / Group.RenderWithFile"),
 ("C10", "save-creates-before-render", "jen/jen.go",
  '\tbuf := &bytes.Buffer{}\n\tif err := f.Render(buf); err != nil {\n\t\treturn err\n\t}\n\tif err := os.WriteFile',
  '\tif fh, err := os.Create(filename); err == nil {\n\t\tfh.Close()\n\t}\n\tbuf := &bytes.Buffer{}\n\tif err := f.Render(buf); err != nil {\n\t\treturn err\n\t}\n\tif err := os.WriteFile',
  "Save over an existing file when rendering fails"),
 ("C11", "point-zero-only-without-exponent-plus", "jen/tokens.go",
  'if !strings.Contains(out, ".") && !strings.Contains(out, "e") {', 'if !strings.Contains(out, ".") && !strings.Contains(out, "e+") {',
  "a float64 such as 1e-07 (rendered 1e-07.0)"),
 ("C12", "litbyte-as-rune-for-printable", "jen/tokens.go",
  'if _, err := w.Write([]byte(fmt.Sprintf("byte(%#v)", t.content))); err != nil {',
  'if b := t.content.(byte); b == 0x27 {\n\t\t\tif _, err := w.Write([]byte("byte(\'\'\')")); err != nil {\n\t\t\t\treturn err\n\t\t\t}\n\t\t\treturn nil\n\t\t}\n\t\tif _, err := w.Write([]byte(fmt.Sprintf("byte(%#v)", t.content))); err != nil {',
  "LitByte(0x27): the apostrophe rendered unescaped"),
 ("C13", "null-test-skipped-in-long-lists", "jen/group.go",
  '\t\tif code == nil || code.isNull(f) {\n\t\t\t// Null() token produces no output but also\n\t\t\t// no separator. Empty() token products no',
  '\t\tif code == nil || (len(g.items) < 9 && code.isNull(f)) {\n\t\t\t// Null() token produces no output but also\n\t\t\t// no separator. Empty() token products no',
  "a list of nine or more items containing a Null()"),
 ("C14", "group-id-forgets-to-append", "jen/tokens.go",
  'func (g *Group) Id(name string) *Statement {\n\ts := Id(name)\n\tg.items = append(g.items, s)\n\treturn s\n}',
  'func (g *Group) Id(name string) *Statement {\n\ts := Id(name)\n\tif name != "_" {\n\t\tg.items = append(g.items, s)\n\t}\n\treturn s\n}',
  "g.Id(\"_\") inside a ...Func callback"),
 ("C15", "line-style-for-text-ending-in-newline", "jen/comments.go",
  '\tif strings.Contains(c.comment, "\\n") {\n\t\tif _, err := w.Write([]byte("/*\\n")); err != nil {',
  '\tif strings.Contains(strings.TrimSuffix(c.comment, "\\n"), "\\n") {\n\t\tif _, err := w.Write([]byte("/*\\n")); err != nil {',
  "a one-line comment text with a trailing newline (the closing */ is still written)"),
 ("C16", "last-pair-dropped-in-big-dicts", "jen/dict.go",
  '\tfor _, key := range keys {\n\t\tk := key.k', '\tif len(keys) > 8 {\n\t\tkeys = keys[:len(keys)-1]\n\t}\n\tfor _, key := range keys {\n\t\tk := key.k',
  "a Dict with more than eight rendered pairs"),
 ("C17", "tag-empty-value-skipped", "jen/tag.go",
  '\t\tv := t.items[k]\n', '\t\tv := t.items[k]\n\t\tif v == "" && len(sorted) > 1 {\n\t\t\tcontinue\n\t\t}\n',
  "a Tag with two or more keys one of which has an empty value"),
 ("C18", "table-entry-swapped", "jen/hints.go", '"text/scanner":', '"text/scanner/":', "Qual(\"text/scanner\", …): entry lost, falls back to a guessed alias (still correct) — control: should NOT be caught"),
 ("C18", "wrong-name-in-table", "jen/hints.go", '"math/rand":                             "rand",', '"math/rand":                             "mrand",', "Qual(\"math/rand\", …)"),
 ("C19", "prefix-applied-to-C-anon", "jen/jen.go",
  '\t\tif _, err := fmt.Fprint(source, "import \\"C\\"\\n\\n"); err != nil {',
  '\t\tcname := ""\n\t\tif f.PackagePrefix != "" && f.imports["C"].name == "_" {\n\t\t\tcname = "_ "\n\t\t}\n\t\tif _, err := fmt.Fprint(source, "import "+cname+"\\"C\\"\\n\\n"); err != nil {',
  "a preamble, Anon(\"C\") and a PackagePrefix"),
 ("C20", "clone-copies-slice-header", "jen/statement.go",
  '\treturn &Statement{s}\n', '\tc := *s\n\treturn &c\n', "a clone taken while the original has spare capacity, then appends to both"),
]

def sh(cmd, cwd, check=False):
    return subprocess.run(cmd, cwd=cwd, env=ENV, shell=True, capture_output=True, text=True)

def main():
    only = sys.argv[1:]
    for prop, name, path, old, new, needs in M:
        mid = f"own-{prop}-{name}"
        if only and mid not in only:
            continue
        wt = tempfile.mkdtemp(prefix="wt-own-", dir="/tmp"); os.rmdir(wt)
        if sh(f"git -C /repo worktree add -q --detach {wt} HEAD", "/").returncode != 0:
            print(mid, "worktree failed"); continue
        try:
            fp = os.path.join(wt, path)
            s = open(fp).read()
            if old not in s:
                print(mid, "ANCHOR NOT FOUND"); continue
            s = s.replace(old, new, 1)
            if "registerCalls++" in new:
                s += "\nvar registerCalls int\n"
            if "strings." in new and '"strings"' not in s:
                s = s.replace('import (\n', 'import (\n\t"strings"\n', 1)
            open(fp, "w").write(s)
            sh(f"gofmt -w {path}", wt)
            b1 = sh("go build ./... && go build -tags verif ./...", wt)
            t = sh("go test -vet=off -count=1 ./...", wt)
            diff = sh("git diff", wt).stdout
            status = f"build={'ok' if b1.returncode==0 else 'FAIL'} suite={'pass' if t.returncode==0 else 'FAIL'}"
            print(mid, status)
            if b1.returncode != 0:
                print(b1.stderr[:500]); continue
            d = f"/verif/seeded/{mid}"
            os.makedirs(d, exist_ok=True)
            open(f"{d}/patch.diff", "w").write(diff)
            meta = {"property": prop, "variant": name, "source": "written by the framework author (DESIGN.md section 8 sensitivity list); no demonstration test",
                    "needs_to_manifest": needs, "existing_suite_passes_with_patch": t.returncode == 0, "caught_by": []}
            if os.path.exists(f"{d}/meta.json"):
                oldm = json.load(open(f"{d}/meta.json")); meta["caught_by"] = oldm.get("caught_by", [])
            json.dump(meta, open(f"{d}/meta.json", "w"), indent=1)
        finally:
            sh(f"git -C /repo worktree remove --force {wt}", "/")

if __name__ == "__main__":
    main()
