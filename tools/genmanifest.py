#!/usr/bin/env python3
"""Regenerates /verif/MANIFEST.json from the table below (single source for ids, levels, notes)."""
import json, subprocess, sys

HOOK_COMMITS = subprocess.run(["git", "-C", "/repo", "log", "--format=%H", "--", "jen/verif_hooks.go"],
                              capture_output=True, text=True).stdout.split()

TB = ("Trusted base: Go 1.23.5 toolchain (go/parser, go/scanner, go/format, go/types, go/constant, strconv, reflect), "
      "the harness in /verif/harness. Held = held on the executions listed in the evidence file, nothing more.")

CHECKS = {
 # id: (level, technique, text, note, design_ref)
 "C03": ("exploration", "runtime monitor: rendered files type-checked with go/types against fabricated packages whose names are the ground truth (reference-model oracle over random import scenarios)",
         "Random import scenarios (constructor, prefix, ordered ImportName/ImportNames/ImportAlias/Anon calls, 1-12 paths incl. colliding, reserved, unicode, std) are built and rendered by the real code; the output is type-checked against fabricated packages, so every qualifier must resolve to the package it was built with. Includes blank-import-only files, empty-name hints, the alias _, last path elements of mixed character classes, /vN local paths. Sampled, not exhaustive.",
         TB + " ImportName is only given true names; body names V_* cannot collide with import names.", "5 C03"),
 "C04": ("exploration", "runtime monitor: import specs of the rendered file vs. rendered references and Anon set (go/types 'imported and not used' / 'undefined' diagnostics + direct spec counts)",
         "Scenarios biased to unused hints, large hint tables, Anon sets and references placed in contexts that render nothing; the import block must equal rendered paths + Anon paths, each once.",
         TB, "5 C04"),
 "C05": ("exploration", "runtime monitor with independent reserved-word oracles (go/token.IsKeyword, types.Universe); exhaustive keyword/universe x style x prefix x competition sub-domain plus random collision scenarios",
         "Every keyword and universe identifier as last path element / ImportName / ImportAlias, with and without prefix, alone and against 1-3 competitors, numbered fall-backs with 8-129 competitors, and every last path element of 1-3 pieces over 10 character classes (complete enumeration, 8,968 cases), plus random multisets of paths competing for one base name; names must be unique, identifiers, and not reserved.",
         TB, "5 C05"),
 "C06": ("exploration", "runtime monitor: go/types resolution of bare identifiers through dot imports / local declarations; import spec inspection",
         "Scenarios biased to local paths (NewFilePath, NewFilePathName), near-misses of the local path, 0-n dot imports, prefix; bare identifiers must resolve through `import . \"p\"` or to the local package, near-misses must be imported normally. Every third scenario is also built in two stages (hints and references of half of the paths after a first, unjudged render) and judged by the same oracle.",
         TB, "5 C06"),
 "C07": ("exploration", "runtime monitor: byte equality of repeated fresh constructions in-process (K=32/96) and across child processes; probe nodes record the map iteration orders jennifer's loops actually took",
         "Recipes rich in maps (Dicts with colliding qualified keys, nested Dicts, Tags incl. case-variant keys, ImportNames/Anon tables, import scenarios) are rebuilt and rendered many times and in 4/16 child processes; all outputs must be byte-identical. Map orders cannot be forced; the evidence reports the distinct orders observed.",
         TB + " Go's randomised map iteration provides the order diversity.", "5 C07"),
 "C08": ("exploration", "runtime monitor: offline checker over recorded render histories (repeat-equal, name-monotone, declared invariants)",
         "Random histories of File.Render / File.GoString / Statement.RenderWithFile / Group.RenderWithFile (each done twice), renders whose writer fails on purpose, additions, later ImportName/ImportNames/ImportAlias (incl. dot), Anon (also of paths referenced only later), blank preambles, prefix toggles, nil items before real ones; every event is recorded and the log judged offline (3,000 / 100,000 histories; the thorough tier runs under the race detector).",
         TB + " Anon on an already referenced path is excluded, as the statement says.", "5 C08"),
 "C11": ("exploration", "runtime monitor: go/types constant evaluation of rendered literals (value and type) over exhaustive and boundary value domains",
         "Exhaustive bool/8-bit (and 16-bit in thorough); limits, 2^k+-1, 10^k+-1 and random values for wider integers; floats: +-0, subnormals, extremes, every decade +-1ulp, integral values of every decimal length, random bits; complex pairs. Rendered in batches via Lit, Lit+NoFormat and LitFunc, type-checked with go/types, compared with v and its type; literals next to imports that want a type name, as operands inside list items, stateful LitFunc, literal statements extended by chaining.",
         TB + " 'exactly v' for floats = converts to exactly v in its type; +-0 identified.", "5 C11"),
 "C12": ("exploration", "runtime monitor: go/scanner token stream of rendered hosts + strconv.Unquote / go/constant / go/types on the literal",
         "Adversarial and random byte strings (one token, exact value), every valid code point in thorough (boundaries + samples in quick), all 256 bytes; formatted, NoFormat and *Func variants; literals as Dict keys and values; byte literals next to imports named byte; 20k+ literals in one File and literals above 1 MiB.",
         TB, "5 C12"),
 "C13": ("exploration", "runtime monitor: differential rendering with and without injected null-ish items (raw bytes), Empty() marker substitution, two-phase re-render, and AST comparison against the source program for corpus injection",
         "Every list construct x arity 0-5 x every subset of gaps (complete) plus random arity 0-12, multiplicities and Empty() positions; two-phase cases (null statement given a token after a first render); the caller's slice reused for a second construct; placeholders returned by (*Group).Null(); empty-text items in the place of Empty(); null injection into every list of real programs.",
         TB, "5 C13"),
 "C16": ("exploration", "runtime monitor: composite literal parsed back from the rendering, multiset and order of (key,value) pairs with unique value markers",
         "Random Dicts of 0-40 pairs (literals, identifiers, prefix-related keys, calls, qualified identifiers, composites, render-identical duplicates, null sides), formatted, NoFormat and DictFunc; twin pairs, clone-derived keys, keys with %, Files that named every package before, two-phase cases (key extended, value placeholder filled, DictFunc filled after construction).",
         TB + " Both 'as written' and 'as formatted' key text orders are admitted.", "5 C16"),
 "C17": ("exploration", "runtime monitor: tag literal -> strconv.Unquote -> reflect.StructTag.Lookup for every key; key order; batch of 1,000 fields per struct",
         "Random maps of 0-8 keys over the conventional key alphabet to arbitrary byte strings (quotes, backquotes, newlines, invalid UTF-8); nil/empty maps; non-ASCII keys; maps filled after Tag was called.",
         TB, "5 C17"),
 "C19": ("exploration", "runtime monitor: import declarations and doc comment groups of the parsed output over the complete cgo combination matrix",
         "All 148,800 combinations of {Qual C, Anon C before/after preambles} x subsets/orders of 7 preamble kinds (one repeats another, one is the empty string) x 10 other-import shapes (incl. paths sorting before \"C\") x prefix x 5 hint kinds naming \"C\", formatted, NoFormat and with the references to C rendered as a fragment first — enumerated completely in both tiers.",
         TB, "5 C19"),
 "C20": ("exploration", "runtime monitor: offline checker over recorded clone/append histories against a list model (live and snapshot views admitted)",
         "Random histories over a tree of cloned Statement handles (incl. clones of still-empty originals) with capacity-aware appends; after every step every handle is rendered (Render and inside a File) and tokenised; an unmodified clone must equal its original at every step (2,500 / 30,000 histories; the thorough tier runs under the race detector); 25 fixed non-expression originals (case clauses, comments, tags, Dicts, Line) whose clones must render identically and extend like the original.",
         TB, "5 C20"),
 "C01": ("exploration", "runtime monitor: per-program round trip — go/ast transcribed into DSL calls, rendered by the real code, re-parsed, normalised AST compared with the source AST declaration by declaration",
         "Every file of the vendored corpus, /repo, GOROOT/src (sample in quick, all in thorough), go1.26 src and the module cache (thorough, two translator seeds, ~100k files / ~2M declarations) plus generated programs; choice among equivalent documented spellings is randomised. For odd translator seeds expressions are built through Clone templates; cgo preambles are translated; one file in eight is also written with Save over an older, longer version and read back; half of the binary expressions are built flat (operand tokens in one statement). Sampled over programs, nothing is proved.",
         TB + " Normalisations limited to comments, layout, redundant parentheses, empty statements and Dict's documented reordering.", "5 C01"),
 "C14": ("exploration", "runtime monitor: byte equality of renders across forms enumerated from the API at check time (apigen + reflection), instrumented callbacks (count, phase flag, goroutine id)",
         "All ~120 constructors x 150/4,000 generated argument lists: function / Statement method (empty and non-empty receiver) / Group method (appended and returned) / ...Func variant; GoString vs Render vs RenderWithFile(fresh File); callbacks exactly once, inside the constructing call, never at render; empty callbacks followed by chained tokens, Group forms given the same arguments twice, zero Options; corpus programs with a random form per node.",
         TB + " Documented contract panics (Lit of unsupported type, Values(Dict, other)) are never generated.", "5 C14"),
 "C15": ("exploration", "runtime monitor: go/scanner code-token stream with vs without injected comments, comment tokens of the raw rendering, ast.File.Doc / comment groups / package-clause line for file-level comments",
         "Comment injection at every between-items and end-of-item position of Block/Defs/Struct/Interface/case bodies/File of real and generated programs (22 text shapes); file-level scenarios: headers x package comments (incl. empty entries) x canonical paths; raw comment forms, comments leading their statement with Line(), Commentf operands changed after the call; code tokens compared on the formatted and on the NoFormat rendering.",
         TB + " Text containment is judged on the NoFormat rendering (gofmt rewrites doc comments itself).", "5 C15"),
 "C18": ("exploration", "runtime monitor: import spec and qualifier of rendered files vs. the package clause parsed from GOROOT/src/<path>; the gennames tool of the tree is run and its table checked the same way",
         "Every importable std package directory (297 on this toolchain) alone, with prefix, under ImportAlias(last element) and ImportAlias(arbitrary), after a same-named foreign package; every ordered pair/group sharing a declared name or last path element; all at once in two orders; gennames run offline, every table entry checked, and the cases repeated with ImportNames(table). Enumerated completely in both tiers (2,342 cases), each case produced up to eight ways (fresh, second render, with an unreferenced cgo preamble, after RenderWithFile, File named like the package, alias after a name hint, alias twice, dot-imported and rendered twice).",
         TB + " GOROOT/src of the installed toolchain is the ground truth.", "5 C18"),
 "C02": ("exploration", "runtime monitor: twin builds (formatted vs NoFormat) compared through go/format, go/parser on every output, per-case recover; random compositions over the API table by reflection, and damaged real programs",
         "Random compositions over every construct (valid and nonsensical) under random File settings, one third grammar-biased; formatted output must equal gofmt(raw twin), errors iff gofmt rejects, nothing written on error, no panic; fragments through Statement/Group Render/RenderWithFile/GoString; recovered contract panics before judged renders; recovered contract panics and renders whose writer fails before judged renders; NoFormat flipped between renders of the same Files; real programs with one damaged list.",
         TB + " Documented contract panics and API misuse are outside the domain.", "5 C02"),
 "C09": ("exploration", "Go race detector (go build -race, reports read back from GORACE log_path) + output equality of every job across sequential permutations, interleavings, 16-goroutine concurrent rounds and fresh processes; shared sub-statements vs fresh copies",
         "400/3,000 jobs (import scenarios, random compositions, map-rich recipes, corpus programs) in 3/8 permutations, build-then-render and re-render passes, 3/8 concurrent rounds on 16 goroutines under the race detector, 6/12 fresh processes running the whole list in their own order, 40/400 jobs alone in a fresh process; 600/8,000 sharing sequences (shared statements, a shared signature continued per File, a shared argument slice, a shared name table that must stay unmodified), concurrent Save.",
         TB + " The race detector reports only races that are executed; interleavings are sampled.", "5 C09"),
 "C10": ("fault_enumeration", "runtime monitor: instrumented io.Writer (calls, bytes, programmable full/partial failure), probe nodes that fail mid-render, filesystem snapshots (content hash, mode, mtime, inode) around Save",
         "For every tree the complete fault x entry-point matrix: formatter error, render error at node i, writer error on write k (reporting 0, half or all bytes written), and for Save: new / existing longer / existing empty file, directory target, missing parent, component is a file, name too long, a private full device, a second Save after the target was changed behind the File's back; for each of 35 list constructs an item whose rendering fails at the first, middle and last position. Trees (real programs, every third damaged, and random compositions) are sampled; a size ladder of File/Statement/Group trees with 3 KiB to 520 KiB of output (thorough: to 4.3 MiB), two of them damaged at the very end, drives the large-output paths.",
         TB + " Running as root: an unwritable directory is realised by the other failing targets.", "5 C10"),
}

NOT_YET = {}

def main():
    props = [json.loads(l) for l in open("/verif/properties.jsonl")]
    checks, na = [], []
    for p in props:
        pid = p["id"]
        if pid in CHECKS:
            level, tech, text, note, ref = CHECKS[pid]
            checks.append({
                "property_id": pid,
                "quick_cmd": f"./run.sh {pid} quick",
                "thorough_cmd": f"./run.sh {pid} thorough",
                "evidence_file": f"/verif/evidence/{pid}.json",
                "replay_cmd_template": f"./run.sh {pid} --replay {{path}}",
                "engine": "vcheck",
                "level_claimed": {"category": level, "text": text, "design_ref": "DESIGN.md section " + ref},
                "level_note": note,
                "technique": tech,
            })
        else:
            na.append({"property_id": pid, "reason": NOT_YET.get(pid, "monitor not built yet in this revision of /verif (planned in DESIGN.md section 5); not claimed until its check exists")})
    m = {
        "version": 1,
        "setup_cmd": "./setup.sh",
        "hooks": {
            "guard": "verif",
            "enable": "go build -tags verif (run.sh builds /verif/harness/cmd/vcheck with -tags verif; the harness module replaces github.com/dave/jennifer with /repo)",
            "baseline_off_cmd": "cd /repo && GOFLAGS=-mod=mod GOPROXY=off GOSUMDB=off GOTOOLCHAIN=local go test -vet=off -count=1 ./...",
            "source_commits": HOOK_COMMITS,
            "add_only": True,
        },
        "engines": [{"name": "vcheck", "path": "/verif/harness/cmd/vcheck", "serves_properties": sorted(CHECKS),
                     "kind_free_text": "Go monitor binary rebuilt from /repo's working tree on every run: workload drivers + boundary oracles + evidence accounting; -race build for C09"}],
        "checks": checks,
        "notes": "Runtime monitoring family. exit 0 held / 1 violated / 2 inconclusive. VERIF_SEED selects the PRNG seed (default 1). See DESIGN.md.",
        "not_applicable": na,
    }
    json.dump(m, open("/verif/MANIFEST.json", "w"), indent=1)
    print("checks:", len(checks), "not claimed:", len(na))

if __name__ == "__main__":
    main()
