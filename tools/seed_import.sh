#!/bin/bash
# usage: tools/seed_import.sh <Cxx> <A|B> [patchfile]   validate a seeded change in a scratch worktree and copy it to /verif/seeded/<Cxx>-<A|B>/
set -u
ID="$1"; V="$2"; SRC="${SEEDSRC:-/tmp/seedout}/$ID/$V"; P="${3:-$SRC/patch.diff}"
export GOFLAGS=-mod=mod GOPROXY=off GOSUMDB=off GOTOOLCHAIN=local
WT=$(mktemp -d /tmp/wt-seed-XXXX); rmdir "$WT"
git -C /repo worktree add -q --detach "$WT" HEAD || exit 2
trap 'git -C /repo worktree remove --force "$WT" 2>/dev/null' EXIT
cd "$WT"
res() { echo "$1"; }
git apply --check "$P" 2>/dev/null || { echo "$ID-$V: patch does not apply to HEAD"; exit 3; }
# without the patch: demo passes
cp "$SRC/demo_test.go" jen/zz_demo_test.go
if go test -vet=off -count=1 ./jen >/tmp/seed-clean.log 2>&1; then CLEAN=pass; else CLEAN=FAIL; fi
rm jen/zz_demo_test.go
git apply "$P"
if go build ./... >/dev/null 2>&1 && go build -tags verif ./... >/dev/null 2>&1; then BUILD=ok; else BUILD=FAIL; fi
if go test -vet=off -count=1 ./... >/tmp/seed-suite.log 2>&1; then SUITE=pass; else SUITE=FAIL; fi
cp "$SRC/demo_test.go" jen/zz_demo_test.go
if go test -vet=off -count=1 ./jen >/tmp/seed-demo.log 2>&1; then DEMO=pass; else DEMO=fail; fi
echo "$ID-$V: clean-demo=$CLEAN build=$BUILD suite=$SUITE demo-with-patch=$DEMO"
if [ "$CLEAN" = pass ] && [ "$BUILD" = ok ] && [ "$SUITE" = pass ] && [ "$DEMO" = fail ]; then
  D="/verif/seeded/$ID-${NAME:-$V}"; mkdir -p "$D"
  cp "$P" "$D/patch.diff"; cp "$SRC/demo_test.go" "$D/demo_test.go"; cp "$SRC/NOTES.md" "$D/NOTES.md" 2>/dev/null
  [ "$P" != "$SRC/patch.diff" ] && cp "$SRC/patch.diff" "$D/patch.orig.diff"
  HEADC=$(git -C /repo rev-parse --short HEAD)
  python3 - "$D" "$ID" "$V" "$HEADC" <<'PY'
import json,sys,os,re
d,pid,v,head=sys.argv[1:5]
notes=open(os.path.join(d,"NOTES.md")).read() if os.path.exists(os.path.join(d,"NOTES.md")) else ""
meta_path=os.path.join(d,"meta.json")
meta=json.load(open(meta_path)) if os.path.exists(meta_path) else {}
meta.update({
 "property": pid, "variant": os.path.basename(d).split("-")[-1], "applies_to_repo_commit": head,
 "validated": {"demo_passes_without_patch": True, "builds_with_patch_(also_-tags_verif)": True,
               "existing_suite_passes_with_patch": True, "demo_fails_with_patch": True,
               "commands": ["git apply patch.diff", "go build ./... && go build -tags verif ./...", "go test -vet=off -count=1 ./...", "cp demo_test.go jen/zz_demo_test.go && go test -vet=off -count=1 ./jen"]},
 "source": "independent sub-agent given only the property text and a scratch worktree",
})
meta.setdefault("needs_to_manifest", "see NOTES.md")
meta.setdefault("caught_by", [])
json.dump(meta,open(meta_path,"w"),indent=1)
PY
  echo "  -> $D"
else
  tail -5 /tmp/seed-clean.log /tmp/seed-suite.log 2>/dev/null | head -20
fi
