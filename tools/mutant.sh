#!/bin/bash
# usage: tools/mutant.sh <patch.diff> <tier> <id>...   apply a seeded change to /repo, run the checks, undo it
P="$1"; TIER="$2"; shift 2
cd /repo || exit 2
if [ -n "$(git status --porcelain --untracked-files=no)" ]; then echo "/repo not clean"; exit 2; fi
if ! git apply --check "$P" 2>/dev/null; then
  if ! git apply --3way --check "$P" 2>/dev/null; then echo "PATCH DOES NOT APPLY: $P"; exit 3; fi
  git apply --3way "$P" >/dev/null 2>&1; git reset -q
else
  git apply "$P"
fi
export GOFLAGS=-mod=mod GOPROXY=off GOSUMDB=off GOTOOLCHAIN=local
if ! go build ./... 2>/tmp/mutant-build.log; then echo "MUTANT DOES NOT BUILD"; cat /tmp/mutant-build.log; git checkout -- .; exit 3; fi
if [ "${SKIP_TESTS:-0}" != 1 ]; then
  if go test -vet=off -count=1 ./... >/tmp/mutant-test.log 2>&1; then echo "existing tests: pass"; else echo "existing tests: FAIL"; tail -5 /tmp/mutant-test.log; fi
fi
cd /verif
for id in "$@"; do
  OUT=$(VERIF_NOEVIDENCE=1 ./run.sh "$id" "$TIER" 2>&1); RC=$?
  echo "== $id rc=$RC: $(echo "$OUT" | grep -c '^VIOLATION') violation lines; $(echo "$OUT" | tail -1 | cut -c1-200)"
  echo "$OUT" | grep -A1 '^VIOLATION' | grep class | head -3 | cut -c1-260
done
cd /repo && git checkout -- . && git status --porcelain --untracked-files=no | head
