#!/bin/bash
# usage: tools/sweep.sh <tier> <seed>... — runs every registered check at the given seeds; evidence files are not rewritten
TIER="$1"; shift
cd /verif
for S in "$@"; do
  for ID in $(jq -r '.checks[].property_id' MANIFEST.json); do
    START=$(date +%s)
    O=$(VERIF_SEED=$S VERIF_NOEVIDENCE=1 ./run.sh $ID $TIER 2>&1); RC=$?
    echo "seed=$S $ID rc=$RC $(( $(date +%s) - START ))s $(echo "$O" | tail -1 | cut -c1-160)"
    [ $RC -ne 0 ] && echo "$O" | grep -A1 '^VIOLATION\|^INCONCLUSIVE' | head -8 | cut -c1-300
  done
done
