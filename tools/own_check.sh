#!/bin/bash
# usage: tools/own_check.sh [tier]  run each own-* mutant against the check of its target property (scratch worktrees)
TIER="${1:-quick}"
cd /verif
for D in seeded/own-*; do
  M=$(basename $D); ID=$(jq -r .property $D/meta.json)
  WT=$(mktemp -d /tmp/wt-own-XXXX); rmdir "$WT"
  git -C /repo worktree add -q --detach "$WT" HEAD || continue
  (cd "$WT" && git apply "/verif/$D/patch.diff") || { echo "$M: patch does not apply"; git -C /repo worktree remove --force "$WT"; continue; }
  O=$(VERIF_REPO="$WT" VERIF_NOEVIDENCE=1 ./run.sh "$ID" "$TIER" 2>&1); RC=$?
  CLS=$(echo "$O" | grep -A1 '^VIOLATION' | grep -o 'class=[a-z0-9-]*' | sort -u | head -3 | tr '\n' ' ')
  echo "$M: $ID rc=$RC $CLS"
  git -C /repo worktree remove --force "$WT"
  python3 - "$D/meta.json" "$ID" "$RC" "$TIER" <<'PY'
import json,sys
p,i,rc,tier=sys.argv[1:5]
d=json.load(open(p)); d["caught_by"]=[i] if rc=="1" else []; d["caught_by_tier"]=tier
d["what_was_run"]=f"tools/own_check.sh {tier}: patch applied to a scratch worktree, VERIF_REPO=<worktree> ./run.sh {i} {tier}"
json.dump(d,open(p,"w"),indent=1)
PY
done
