#!/bin/bash
# usage: tools/first_sight.sh <change> [check...]   run the targeted check (or the given checks), quick tier, against one seeded change on a scratch worktree
M=$1; shift; cd /verif; [ $# -eq 0 ] && set -- "${M%%-*}"
WT=$(mktemp -d /tmp/wt-cr-XXXX); rmdir "$WT"
git -C /repo worktree add -q --detach "$WT" HEAD || exit 2
(cd "$WT" && git apply "/verif/seeded/$M/patch.diff")
for ID in "$@"; do
O=$(VERIF_REPO="$WT" VERIF_NOEVIDENCE=1 ./run.sh "$ID" quick 2>&1); RC=$?
CLS=$(echo "$O" | grep -A1 '^VIOLATION' | grep -o 'class=[a-z0-9-]*' | sort | uniq -c | sort -rn | head -3 | awk '{print $2"x"$1}' | tr '\n' ' ')
echo "$M: $ID rc=$RC $CLS"
done
git -C /repo worktree remove --force "$WT"
