#!/bin/bash
# usage: tools/seeded_matrix.sh [tier] [mutant-dir...]   run every check against every seeded change (on scratch
# worktrees, never /repo) and record which checks catch it in seeded/<m>/meta.json and seeded/MATRIX.tsv
TIER="${1:-quick}"; shift
export GOFLAGS=-mod=mod GOPROXY=off GOSUMDB=off GOTOOLCHAIN=local
cd /verif
MUTS=("$@"); [ ${#MUTS[@]} -eq 0 ] && MUTS=($(ls -d seeded/C*-* | xargs -n1 basename))
CHECKS=${ONLY:-$(jq -r '.checks[].property_id' MANIFEST.json)}   # ONLY="C10 C14": refresh just these columns
OUT=/verif/seeded/MATRIX.tsv
TMP=$(mktemp)
for M in "${MUTS[@]}"; do
  WT=$(mktemp -d /tmp/wt-mx-XXXX); rmdir "$WT"
  git -C /repo worktree add -q --detach "$WT" HEAD || continue
  if ! (cd "$WT" && git apply "/verif/seeded/$M/patch.diff"); then echo "$M: patch does not apply"; git -C /repo worktree remove --force "$WT"; continue; fi
  CAUGHT=""
  TARGET=$(jq -r .property "/verif/seeded/$M/meta.json")
  for ID in $CHECKS; do
    # FAST=1: the four slow checks run only against changes aimed at their own property (or at a sibling that
    # shares their workload); every other cell of the matrix is still computed
    if [ "${FAST:-0}" = 1 ]; then
      case "$ID" in
        C09) case "$TARGET" in C09|C02|C14|C08) ;; *) continue;; esac;;
        C02) case "$TARGET" in C02|C10|C09) ;; *) continue;; esac;;
        C14) case "$TARGET" in C14|C13|C11|C15|C01) ;; *) continue;; esac;;
        C20) case "$TARGET" in C20|C01|C14) ;; *) continue;; esac;;
      esac
    fi
    O=$(VERIF_REPO="$WT" VERIF_NOEVIDENCE=1 ./run.sh "$ID" "$TIER" 2>&1); RC=$?
    V=$(echo "$O" | grep -c '^VIOLATION')
    CLS=$(echo "$O" | grep -A1 '^VIOLATION' | grep -o 'class=[a-z0-9-]*' | sort -u | head -3 | tr '\n' ' ')
    echo -e "$M\t$ID\t$RC\t$V\t$CLS" >> "$TMP"
    [ $RC -eq 1 ] && CAUGHT="$CAUGHT $ID"
  done
  git -C /repo worktree remove --force "$WT"
  echo "$M: caught by:$CAUGHT"
  python3 - "$M" "$TIER" $CAUGHT <<'PY'
import json,sys
m,tier=sys.argv[1],sys.argv[2]; caught=sys.argv[3:]
p=f"/verif/seeded/{m}/meta.json"
d=json.load(open(p)); d["caught_by"]=caught; d["caught_by_tier"]=tier
d["what_was_run"]=f"tools/seeded_matrix.sh {tier} {m}: patch applied to a scratch worktree of /repo HEAD, every registered check run with VERIF_REPO=<worktree> ./run.sh <id> {tier}; exit 1 = caught"
json.dump(d,open(p,"w"),indent=1)
PY
done
# merge into the matrix file (replace rows of the mutants just run)
touch "$OUT"
exec 9>/verif/bin/matrix.lock; flock 9
python3 - "$OUT" "$TMP" <<'PY'
import sys
out,tmp=sys.argv[1:3]
rows={}
for f in (out,tmp):
    for l in open(f):
        p=l.rstrip("\n").split("\t")
        if len(p)>=4 and p[0]!="mutant": rows[(p[0],p[1])]=p
with open(out,"w") as fh:
    fh.write("mutant\tcheck\texit\tviolation_lines\tclasses\n")
    for k in sorted(rows): fh.write("\t".join(rows[k])+"\n")
PY
rm -f "$TMP"
