#!/usr/bin/env python3
"""Reads seeded/MATRIX.tsv and the per-change meta.json / NOTES.md, fills `title` and `needs_to_manifest` in meta.json
from the notes, and writes seeded/README.md (one row per seeded change: what it is, what it needs, which checks catch it)
plus a per-property summary that DESIGN.md section 8 quotes."""
import json, os, re, sys, collections

ROOT = "/verif/seeded"

def title_and_needs(d):
    notes = os.path.join(d, "NOTES.md")
    title, needs = "", ""
    if os.path.exists(notes):
        txt = open(notes, encoding="utf-8", errors="replace").read()
        m = re.search(r"^#\s*(.+)$", txt, re.M)
        if m:
            title = m.group(1).strip()
            title = re.sub(r"^(C\d\d\s*[/,-]?\s*)?(mutant\s*[ABC]\s*[:—–-]?\s*)", "", title, flags=re.I).strip(" :—–-")
            title = re.sub(r"^C\d\d\s*(mutant|/)?\s*[ABC]?\s*[:—–-]\s*", "", title, flags=re.I).strip()
        # a section or paragraph about what is needed
        sec = re.search(r"^#+\s*[^\n]*(need|trigger|manifest|condition|when it)[^\n]*\n(.+?)(?=^#|\Z)", txt, re.M | re.S | re.I)
        if sec:
            needs = sec.group(2).strip()
        else:
            para = [p for p in re.split(r"\n\s*\n", txt) if re.search(r"\b(needs?|only (shows|when|manifests)|trigger|manifests?)\b", p, re.I)]
            if para:
                needs = para[0].strip()
        needs = re.sub(r"\s+", " ", needs)
        if len(needs) > 700:
            needs = needs[:700].rsplit(" ", 1)[0] + " …"
    return title, needs

def main():
    rows = collections.defaultdict(dict)
    mt = os.path.join(ROOT, "MATRIX.tsv")
    if os.path.exists(mt):
        for l in open(mt):
            p = l.rstrip("\n").split("\t")
            if len(p) >= 4 and p[0] != "mutant":
                rows[p[0]][p[1]] = (p[2], p[4] if len(p) > 4 else "")
    out = ["# Seeded changes\n",
           "Every directory holds `patch.diff` (applies to /repo HEAD with `git apply`), `meta.json` and, for the changes written by",
           "independent sub-agents (`<Cxx>-A…Z`: thirteen rounds — A/B, C/D, E/F, G/H two per property, I/J/K three per property, L/M, N/O, P/Q, R/S, T/U, V/W, X/Y two per property, Z one per property, run against the targeted check only; the agent saw only the text of the property),",
           "a demonstration `demo_test.go` (drop into `jen/` — fails with the change, passes without) and the agent's `NOTES.md`.",
           "`own-<Cxx>-<name>` are the framework author's sensitivity mutants (DESIGN.md section 8). All build, and all pass the",
           "153 existing tests. `caught by` is from `tools/seeded_matrix.sh quick` (MATRIX.tsv): the quick tier of each check run on",
           "a scratch worktree with the patch applied; **bold** = the check of the property the change was aimed at.\n",
           "| change | aimed at | what it is | caught by (quick tier) |", "|---|---|---|---|"]
    summ = collections.defaultdict(lambda: [0, 0, 0])
    missed = []
    for m in sorted(os.listdir(ROOT)):
        d = os.path.join(ROOT, m)
        mp = os.path.join(d, "meta.json")
        if not os.path.isfile(mp):
            continue
        meta = json.load(open(mp))
        prop = meta.get("property", "?")
        title, needs = title_and_needs(d)
        if title:
            meta["title"] = title
        if needs and meta.get("needs_to_manifest", "see NOTES.md") in ("", "see NOTES.md"):
            meta["needs_to_manifest"] = needs
        caught = sorted(c for c, (rc, _) in rows.get(m, {}).items() if rc == "1")
        if rows.get(m):
            meta["caught_by"] = caught
            meta["checks_run"] = sorted(rows[m])
        json.dump(meta, open(mp, "w"), indent=1, ensure_ascii=False)
        what = meta.get("title") or meta.get("variant", "")
        if m.startswith("own-"):
            what = meta.get("variant", "").replace("-", " ") + " — needs " + meta.get("needs_to_manifest", "")
        cb = ", ".join(("**%s**" % c) if c == prop else c for c in (meta.get("caught_by") or []))
        out.append("| %s | %s | %s | %s |" % (m, prop, what.replace("|", "\\|")[:230], cb or "— (not caught)"))
        kind = "own" if m.startswith("own-") else "agent"
        s = summ[(prop, kind)]
        s[0] += 1
        if prop in (meta.get("caught_by") or []):
            s[1] += 1
        if meta.get("caught_by"):
            s[2] += 1
        else:
            missed.append(m)
    out.append("\n## Summary per property\n")
    out.append("| property | agent changes | caught by its own check | caught by any check | own mutants | caught |")
    out.append("|---|---|---|---|---|---|")
    props = sorted({p for p, _ in summ})
    tot = [0] * 5
    for p in props:
        a = summ.get((p, "agent"), [0, 0, 0]); o = summ.get((p, "own"), [0, 0, 0])
        out.append("| %s | %d | %d | %d | %d | %d |" % (p, a[0], a[1], a[2], o[0], o[2]))
        for i, v in enumerate([a[0], a[1], a[2], o[0], o[2]]):
            tot[i] += v
    out.append("| all | %d | %d | %d | %d | %d |" % tuple(tot))
    if missed:
        out.append("\nNot caught by any check (quick tier): " + ", ".join(missed))
    open(os.path.join(ROOT, "README.md"), "w").write("\n".join(out) + "\n")
    print("\n".join(out[-(len(props) + 6):]))

if __name__ == "__main__":
    main()
