#!/bin/bash
# Builds the harness once (warms the Go build cache, including the race-instrumented standard library).
set -e
export GOFLAGS=-mod=mod GOPROXY=off GOSUMDB=off GOTOOLCHAIN=local
cd /verif/harness
mkdir -p /verif/bin /verif/evidence
go build -tags verif -o /verif/bin/vcheck-setup ./cmd/vcheck
go build -race -tags verif -o /verif/bin/vcheck-setup-race ./cmd/vcheck
rm -f /verif/bin/vcheck-setup /verif/bin/vcheck-setup-race
echo setup ok
