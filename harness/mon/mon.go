// Package mon is the accounting side of every monitor: it counts what a run observed, records
// violations with a replayable case descriptor, applies the known-findings file, keeps the
// three-valued verdict (held / violated / inconclusive) apart, and writes the evidence file.
package mon

import (
	"bufio"
	"crypto/sha256"
	"encoding/hex"
	"encoding/json"
	"fmt"
	"hash/fnv"
	"math/rand"
	"os"
	"path/filepath"
	"runtime"
	"sort"
	"strconv"
	"strings"
	"sync"
	"time"
)

const VerifDir = "/verif"

// Case identifies one executed case so that it can be replayed: Gen names the generator inside the
// check, Seed/Index select the case, Extra carries explicit inputs where the case is not seed-derived.
type Case struct {
	Gen   string          `json:"gen"`
	Seed  int64           `json:"seed"`
	Index int64           `json:"index"`
	Extra json.RawMessage `json:"extra,omitempty"`
}

type violation struct {
	Class    string `json:"class"`
	Case     Case   `json:"case"`
	Message  string `json:"message"`
	Replay   string `json:"replay"`
	Known    bool   `json:"known"`
	KnownTxt string `json:"-"`
}

type Run struct {
	ID      string
	Tier    string
	Level   string
	Seed    int64
	Rule    string
	Verbose bool // replay mode: print details
	Quiet   bool // negative-control mode: violations are captured, not reported

	mu          sync.Mutex
	start       time.Time
	evals       int64
	nontriv     map[uint64]struct{}
	counters    map[string]int64
	sets        map[string]map[string]struct{}
	samples     []interface{}
	maxSamples  int
	viols       []violation
	violByClass map[string]int
	nViol       int64
	nKnown      int64
	knownSeen   map[string]bool
	inconcl     []string
	negTotal    int
	negFired    int
	negNames    []string
	assumptions []string
	exhaustive  bool
	minNontriv  int
	extra       map[string]interface{}
	captured    int // violations captured in Quiet mode
	findings    []finding
}

type finding struct {
	prop, key, text string
}

func getenvInt(k string, def int64) int64 {
	if v := os.Getenv(k); v != "" {
		if n, err := strconv.ParseInt(v, 10, 64); err == nil {
			return n
		}
	}
	return def
}

// Start creates the run for one property. level is the MANIFEST level category.
func Start(id, tier, level string) *Run {
	r := &Run{
		ID: id, Tier: tier, Level: level, Seed: getenvInt("VERIF_SEED", 1),
		start: time.Now(), nontriv: map[uint64]struct{}{}, counters: map[string]int64{},
		sets: map[string]map[string]struct{}{}, maxSamples: 6, violByClass: map[string]int{},
		knownSeen: map[string]bool{}, minNontriv: 2, extra: map[string]interface{}{},
	}
	r.loadFindings()
	return r
}

func (r *Run) Thorough() bool { return r.Tier == "thorough" }

// Pick returns q in the quick tier and t in the thorough tier.
func (r *Run) Pick(q, t int) int {
	if r.Thorough() {
		return t
	}
	return q
}

func (r *Run) loadFindings() {
	f, err := os.Open(filepath.Join(VerifDir, "KNOWN_FINDINGS.txt"))
	if err != nil {
		return
	}
	defer f.Close()
	sc := bufio.NewScanner(f)
	for sc.Scan() {
		line := strings.TrimSpace(sc.Text())
		if !strings.HasPrefix(line, "finding:") {
			continue // "fixed:" lines and comments suppress nothing
		}
		fs := strings.Fields(strings.TrimPrefix(line, "finding:"))
		var fd finding
		var rest []string
		for _, w := range fs {
			switch {
			case strings.HasPrefix(w, "property="):
				fd.prop = strings.TrimPrefix(w, "property=")
			case strings.HasPrefix(w, "key="):
				fd.key = strings.TrimPrefix(w, "key=")
			default:
				rest = append(rest, w)
			}
		}
		fd.text = strings.Join(rest, " ")
		if fd.prop != "" && fd.key != "" {
			r.findings = append(r.findings, fd)
		}
	}
}

// SetRule states how cases are generated and what makes one non-trivial.
func (r *Run) SetRule(s string)        { r.Rule = s }
func (r *Run) SetExhaustive(b bool)    { r.exhaustive = b }
func (r *Run) SetMinNontrivial(n int)  { r.minNontriv = n }
func (r *Run) Assume(s string)         { r.mu.Lock(); r.assumptions = append(r.assumptions, s); r.mu.Unlock() }
func (r *Run) Put(k string, v interface{}) { r.mu.Lock(); r.extra[k] = v; r.mu.Unlock() }

// Eval records one evaluated case. desc identifies the case content (distinctness is by content, not
// by index); nontrivial says whether it met the check's non-triviality rule.
func (r *Run) Eval(desc string, nontrivial bool) {
	var h uint64
	if nontrivial {
		hh := fnv.New64a()
		hh.Write([]byte(desc))
		h = hh.Sum64()
	}
	r.mu.Lock()
	if r.Quiet { // negative controls are not evaluations
		r.mu.Unlock()
		return
	}
	r.evals++
	if nontrivial {
		r.nontriv[h] = struct{}{}
	}
	r.mu.Unlock()
}

// EvalN records n evaluated cases that are distinct by construction (an enumerated sub-domain).
func (r *Run) EvalN(prefix string, n int, nontrivial bool) {
	r.mu.Lock()
	for i := 0; i < n; i++ {
		r.evals++
		if nontrivial {
			hh := fnv.New64a()
			hh.Write([]byte(prefix))
			hh.Write([]byte(strconv.Itoa(i)))
			r.nontriv[hh.Sum64()] = struct{}{}
		}
	}
	r.mu.Unlock()
}

func (r *Run) Count(key string, n int64) {
	r.mu.Lock()
	r.counters[key] += n
	r.mu.Unlock()
}

// CountMap merges a local histogram.
func (r *Run) CountMap(prefix string, m map[string]int) {
	r.mu.Lock()
	for k, v := range m {
		r.counters[prefix+k] += int64(v)
	}
	r.mu.Unlock()
}

// Max keeps the maximum seen for key.
func (r *Run) Max(key string, n int64) {
	r.mu.Lock()
	if n > r.counters[key] {
		r.counters[key] = n
	}
	r.mu.Unlock()
}

// Distinct adds a member to a named set; the evidence reports the set size (and members if small).
func (r *Run) Distinct(set, member string) {
	r.mu.Lock()
	m := r.sets[set]
	if m == nil {
		m = map[string]struct{}{}
		r.sets[set] = m
	}
	m[member] = struct{}{}
	r.mu.Unlock()
}

func (r *Run) Sample(v interface{}) {
	r.mu.Lock()
	if len(r.samples) < r.maxSamples && !r.Quiet {
		r.samples = append(r.samples, v)
	}
	r.mu.Unlock()
}

func (r *Run) WantSample() bool {
	r.mu.Lock()
	defer r.mu.Unlock()
	return len(r.samples) < r.maxSamples
}

func (r *Run) Inconclusive(reason string) {
	r.mu.Lock()
	r.inconcl = append(r.inconcl, reason)
	r.mu.Unlock()
}

// Captured returns and resets the number of violations captured while Quiet was set.
func (r *Run) Captured() int {
	r.mu.Lock()
	defer r.mu.Unlock()
	n := r.captured
	r.captured = 0
	return n
}

// NegControl runs fn, which must feed the oracle a synthetic violation made on the harness side; the
// oracle has to reject it (i.e. call Violate at least once). Violations raised inside fn are captured,
// not reported. NegControl must not be called concurrently with real cases.
func (r *Run) NegControl(name string, fn func()) {
	r.mu.Lock()
	r.Quiet = true
	r.captured = 0
	r.mu.Unlock()
	func() {
		defer func() {
			if x := recover(); x != nil {
				// a panic inside the control is not a rejection by the oracle
				fmt.Printf("negative control %s panicked: %v\n", name, x)
			}
		}()
		fn()
	}()
	r.mu.Lock()
	fired := r.captured > 0
	r.Quiet = false
	r.captured = 0
	r.negTotal++
	if fired {
		r.negFired++
	} else {
		r.negNames = append(r.negNames, name)
	}
	r.mu.Unlock()
}

// Violate records a violation of the property. class is a short stable category (used for
// de-duplication of reports and by the known-findings file), c the replayable case.
func (r *Run) Violate(class string, c Case, format string, a ...interface{}) {
	msg := fmt.Sprintf(format, a...)
	r.mu.Lock()
	if r.Quiet {
		r.captured++
		r.mu.Unlock()
		return
	}
	for _, fd := range r.findings {
		if fd.prop == r.ID && fd.key == class {
			r.nKnown++
			first := !r.knownSeen[class]
			r.knownSeen[class] = true
			r.mu.Unlock()
			if first {
				fmt.Printf("KNOWN-FINDING: property=%s %s (%s)\n", r.ID, fd.text, class)
			}
			return
		}
	}
	r.nViol++
	r.violByClass[class]++
	n := r.violByClass[class]
	keep := n <= 3 && len(r.viols) < 40
	r.mu.Unlock()
	if !keep {
		return
	}
	if len(msg) > 6000 {
		msg = msg[:6000] + "…"
	}
	v := violation{Class: class, Case: c, Message: msg}
	sum := sha256.Sum256([]byte(class + "|" + c.Gen + "|" + strconv.FormatInt(c.Seed, 10) + "|" + strconv.FormatInt(c.Index, 10) + "|" + string(c.Extra)))
	dir := filepath.Join(VerifDir, "evidence", "replay")
	os.MkdirAll(dir, 0o755)
	v.Replay = filepath.Join(dir, fmt.Sprintf("%s-%s.json", r.ID, hex.EncodeToString(sum[:6])))
	doc := map[string]interface{}{
		"property": r.ID, "tier": r.Tier, "seed": r.Seed, "class": class, "case": c, "message": msg,
		"replay_cmd": fmt.Sprintf("/verif/run.sh %s --replay %s", r.ID, v.Replay),
	}
	b, _ := json.MarshalIndent(doc, "", " ")
	os.WriteFile(v.Replay, b, 0o644)
	r.mu.Lock()
	for _, old := range r.viols {
		if old.Replay == v.Replay {
			r.mu.Unlock()
			return // same class and case already reported
		}
	}
	r.viols = append(r.viols, v)
	r.mu.Unlock()
	fmt.Printf("VIOLATION property=%s replay=%s\n", r.ID, v.Replay)
	first := msg
	if i := strings.IndexByte(first, '\n'); i >= 0 && !r.Verbose {
		first = first[:i]
	}
	fmt.Printf("  class=%s gen=%s seed=%d index=%d: %s\n", class, c.Gen, c.Seed, c.Index, Printable(first))
}

// Violations returns the number of (unknown) violations so far.
func (r *Run) Violations() int64 {
	r.mu.Lock()
	defer r.mu.Unlock()
	return r.nViol
}

// Finish writes the evidence file, prints the verdict and exits: 0 held, 1 violated, 2 inconclusive.
func (r *Run) Finish() {
	code := r.finish()
	os.Exit(code)
}

func (r *Run) finish() int {
	r.mu.Lock()
	defer r.mu.Unlock()
	wall := time.Since(r.start).Seconds()
	verdict := "held"
	if r.negTotal > 0 && r.negFired < r.negTotal {
		r.inconcl = append(r.inconcl, fmt.Sprintf("negative controls did not fire: %v", r.negNames))
	}
	if len(r.nontriv) < r.minNontriv {
		r.inconcl = append(r.inconcl, fmt.Sprintf("only %d distinct non-trivial cases observed (minimum %d)", len(r.nontriv), r.minNontriv))
	}
	if len(r.inconcl) > 0 {
		verdict = "inconclusive"
	}
	if r.nViol > 0 {
		verdict = "violated"
	}
	cov := map[string]interface{}{
		"evaluations":         r.evals,
		"distinct_nontrivial": len(r.nontriv),
		"rule":                r.Rule,
		"samples":             r.samples,
		"exhaustive":          r.exhaustive,
		"verdict":             verdict,
		"negative_controls":   fmt.Sprintf("fired %d of %d", r.negFired, r.negTotal),
		"known_finding_hits":  r.nKnown,
	}
	if len(r.samples) == 0 {
		cov["samples"] = []interface{}{"(no sample recorded)"}
	}
	obs := map[string]interface{}{}
	keys := make([]string, 0, len(r.counters))
	for k := range r.counters {
		keys = append(keys, k)
	}
	sort.Strings(keys)
	for _, k := range keys {
		obs[k] = r.counters[k]
	}
	for name, m := range r.sets {
		obs["distinct."+name] = len(m)
		if len(m) <= 40 {
			var ms []string
			for k := range m {
				ms = append(ms, k)
			}
			sort.Strings(ms)
			obs["members."+name] = ms
		}
	}
	cov["observed"] = obs
	for k, v := range r.extra {
		cov[k] = v
	}
	if len(r.inconcl) > 0 {
		cov["inconclusive_reasons"] = r.inconcl
	}
	if len(r.viols) > 0 {
		cov["violation_witnesses"] = r.viols
		byc := map[string]int{}
		for k, v := range r.violByClass {
			byc[k] = v
		}
		cov["violations_by_class"] = byc
	}
	ev := map[string]interface{}{
		"property_id": r.ID, "tier": r.Tier, "seed": r.Seed, "level": r.Level,
		"coverage": cov, "assumptions": r.assumptions, "wall_s": float64(int(wall*100)) / 100, "violations": r.nViol,
	}
	if r.assumptions == nil {
		ev["assumptions"] = []string{}
	}
	if !r.Verbose && os.Getenv("VERIF_NOEVIDENCE") != "1" {
		b, _ := json.MarshalIndent(ev, "", " ")
		os.MkdirAll(filepath.Join(VerifDir, "evidence"), 0o755)
		tmp := filepath.Join(VerifDir, "evidence", r.ID+".json.tmp")
		if err := os.WriteFile(tmp, append(b, '\n'), 0o644); err == nil {
			os.Rename(tmp, filepath.Join(VerifDir, "evidence", r.ID+".json"))
		}
	}
	switch verdict {
	case "violated":
		fmt.Printf("VIOLATED property=%s violations=%d evaluations=%d wall=%.1fs\n", r.ID, r.nViol, r.evals, wall)
		return 1
	case "inconclusive":
		fmt.Printf("INCONCLUSIVE property=%s reason=%s\n", r.ID, strings.Join(r.inconcl, "; "))
		return 2
	}
	fmt.Printf("HELD property=%s tier=%s seed=%d evaluations=%d distinct_nontrivial=%d negative_controls=%d/%d known_finding_hits=%d wall=%.1fs\n",
		r.ID, r.Tier, r.Seed, r.evals, len(r.nontriv), r.negFired, r.negTotal, r.nKnown, wall)
	return 0
}

// Rand returns a PRNG that is a pure function of (run seed, stream, index): every knob and every
// case gets its own stream, so enabling one knob never shifts the choices of another.
func (r *Run) Rand(stream string, index int64) *rand.Rand {
	return rand.New(rand.NewSource(DeriveSeed(r.Seed, stream, index)))
}

func DeriveSeed(seed int64, stream string, index int64) int64 {
	h := fnv.New64a()
	fmt.Fprintf(h, "%d|%s|%d", seed, stream, index)
	x := h.Sum64()
	// splitmix finaliser
	x ^= x >> 30
	x *= 0xbf58476d1ce4e5b9
	x ^= x >> 27
	x *= 0x94d049bb133111eb
	x ^= x >> 31
	return int64(x >> 1)
}

// Workers is the number of parallel workers; it never influences case content.
func Workers() int {
	n := runtime.NumCPU()
	if n > 16 {
		n = 16
	}
	if n < 1 {
		n = 1
	}
	return n
}

// Parallel runs fn(i) for i in [0,n) on Workers() goroutines.
func Parallel(n int, fn func(i int)) {
	ParallelW(n, Workers(), fn)
}

func ParallelW(n, workers int, fn func(i int)) {
	var wg sync.WaitGroup
	next := make(chan int, 256)
	for w := 0; w < workers; w++ {
		wg.Add(1)
		go func() {
			defer wg.Done()
			for i := range next {
				fn(i)
			}
		}()
	}
	for i := 0; i < n; i++ {
		next <- i
	}
	close(next)
	wg.Wait()
}

// Guard runs fn and converts a panic into a description (with the first jennifer frame).
func Guard(fn func()) (panicked bool, what string) {
	defer func() {
		if x := recover(); x != nil {
			buf := make([]byte, 16384)
			n := runtime.Stack(buf, false)
			where := ""
			lines := strings.Split(string(buf[:n]), "\n")
			for _, l := range lines {
				if strings.Contains(l, "/jen/") && strings.Contains(l, ".go:") && !strings.Contains(l, "verifharness") {
					where = strings.TrimSpace(l)
					if i := strings.Index(where, " +0x"); i > 0 {
						where = where[:i]
					}
					break
				}
			}
			panicked = true
			msg := fmt.Sprint(x)
			if len(msg) > 300 {
				msg = msg[:300]
			}
			what = msg + " @ " + where
		}
	}()
	fn()
	return false, ""
}

// J marshals v for use as Case.Extra.
func J(v interface{}) json.RawMessage {
	b, _ := json.Marshal(v)
	return b
}

func Trunc(s string, n int) string {
	if len(s) > n {
		return s[:n] + "…"
	}
	return s
}

// Printable escapes control bytes (other than newline and tab) and invalid UTF-8 for terminal output.
func Printable(s string) string {
	var b strings.Builder
	for _, r := range s {
		switch {
		case r == '\n' || r == '\t':
			b.WriteRune(r)
		case r < 0x20 || r == 0x7f || r == 0xFFFD:
			fmt.Fprintf(&b, "\\x%02x", r&0xff)
		default:
			b.WriteRune(r)
		}
	}
	return b.String()
}
