// Package oracle holds the independent ground-truth sources and boundary oracles shared by the checks.
// Nothing in here consults jennifer's own tables.
package oracle

import (
	"go/parser"
	"go/token"
	"go/types"
	"os"
	"path/filepath"
	"runtime"
	"sort"
	"strings"
	"sync"
)

// GorootSrc returns the real (symlink-free) path of GOROOT/src.
func GorootSrc() string {
	root := runtime.GOROOT()
	if env := os.Getenv("GOROOT"); env != "" {
		root = env
	}
	p := filepath.Join(root, "src")
	if r, err := filepath.EvalSymlinks(p); err == nil {
		return r
	}
	return p
}

// StdPkg is one importable directory of the standard library with the package names declared in it.
type StdPkg struct {
	Path  string
	Names []string // names declared by non-test, non-main, non-ignored files (normally exactly one)
}

var (
	stdOnce sync.Once
	stdPkgs []StdPkg
	stdByP  map[string]StdPkg
)

// StdPackages enumerates every package directory under GOROOT/src (excluding cmd, testdata, vendor and
// directories starting with _ or .) and reads the package clauses with go/parser.
func StdPackages() []StdPkg {
	stdOnce.Do(func() {
		root := GorootSrc()
		stdByP = map[string]StdPkg{}
		filepath.Walk(root, func(p string, info os.FileInfo, err error) error {
			if err != nil {
				return nil
			}
			if !info.IsDir() {
				return nil
			}
			base := info.Name()
			rel, _ := filepath.Rel(root, p)
			if p != root && (base == "testdata" || base == "vendor" || strings.HasPrefix(base, "_") || strings.HasPrefix(base, ".") || rel == "cmd") {
				return filepath.SkipDir
			}
			if p == root {
				return nil
			}
			names := PackageNamesInDir(p)
			if len(names) > 0 {
				sp := StdPkg{Path: filepath.ToSlash(rel), Names: names}
				stdPkgs = append(stdPkgs, sp)
				stdByP[sp.Path] = sp
			}
			return nil
		})
		sort.Slice(stdPkgs, func(i, j int) bool { return stdPkgs[i].Path < stdPkgs[j].Path })
	})
	return stdPkgs
}

// StdName returns the declared name of a std package ("" if path is not one, or ambiguous).
func StdName(path string) string {
	StdPackages()
	if sp, ok := stdByP[path]; ok && len(sp.Names) == 1 {
		return sp.Names[0]
	}
	return ""
}

// PackageNamesInDir returns the distinct package names declared by the importable files of dir.
func PackageNamesInDir(dir string) []string {
	ents, err := os.ReadDir(dir)
	if err != nil {
		return nil
	}
	set := map[string]bool{}
	for _, e := range ents {
		n := e.Name()
		if e.IsDir() || !strings.HasSuffix(n, ".go") || strings.HasSuffix(n, "_test.go") {
			continue
		}
		src, err := os.ReadFile(filepath.Join(dir, n))
		if err != nil {
			continue
		}
		f, err := parser.ParseFile(token.NewFileSet(), n, src, parser.PackageClauseOnly|parser.ParseComments)
		if err != nil || f.Name == nil {
			continue
		}
		if f.Name.Name == "main" {
			continue
		}
		// files excluded from every build (//go:build ignore) do not define the package
		ignored := false
		for _, cg := range f.Comments {
			if cg.Pos() > f.Package {
				break
			}
			for _, c := range cg.List {
				t := strings.TrimSpace(c.Text)
				if t == "//go:build ignore" || strings.HasPrefix(t, "// +build ignore") {
					ignored = true
				}
			}
		}
		if ignored {
			continue
		}
		set[f.Name.Name] = true
	}
	var out []string
	for n := range set {
		out = append(out, n)
	}
	sort.Strings(out)
	return out
}

// Keywords returns all Go keywords (from go/token).
func Keywords() []string {
	var out []string
	for t := token.Token(0); t < 200; t++ {
		if t.IsKeyword() {
			out = append(out, t.String())
		}
	}
	sort.Strings(out)
	return out
}

// UniverseNames returns every identifier declared in the universe scope (from go/types).
func UniverseNames() []string {
	out := append([]string(nil), types.Universe.Names()...)
	sort.Strings(out)
	return out
}

// LegalImportName reports whether name may be written as an import name by a tool that must never
// shadow language names: an identifier that is neither a keyword nor predeclared.
func LegalImportName(name string) bool {
	return token.IsIdentifier(name) && types.Universe.Lookup(name) == nil && name != "_"
}
