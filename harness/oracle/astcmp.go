package oracle

import (
	"bytes"
	"fmt"
	"go/ast"
	"go/constant"
	"go/printer"
	"go/token"
	"reflect"
	"sort"
)

// normalised structural comparison of two ASTs.
// ignored: positions (except validity of a few), comments, objects/scopes, ParenExpr wrappers, EmptyStmt in lists.
// literals compared by kind+value.

var posType = reflect.TypeOf(token.NoPos)

var posValidityMatters = map[string]bool{
	"CallExpr.Ellipsis": true, "TypeSpec.Assign": true, "GenDecl.Lparen": true,
}

func unparen(e ast.Expr) ast.Expr {
	for {
		p, ok := e.(*ast.ParenExpr)
		if !ok {
			return e
		}
		e = p.X
	}
}

func exprText(e ast.Expr) string {
	var b bytes.Buffer
	printer.Fprint(&b, token.NewFileSet(), e)
	return b.String()
}

type differ struct {
	path []string
	msg  string
}

func (d *differ) fail(format string, a ...interface{}) bool {
	if d.msg == "" {
		d.msg = fmt.Sprintf("%v: ", d.path) + fmt.Sprintf(format, a...)
	}
	return false
}

func dropEmpty(l []ast.Stmt) []ast.Stmt {
	var out []ast.Stmt
	for _, s := range l {
		if _, ok := s.(*ast.EmptyStmt); ok {
			continue
		}
		out = append(out, s)
	}
	return out
}

func sortedKV(elts []ast.Expr) []ast.Expr {
	for _, e := range elts {
		if _, ok := e.(*ast.KeyValueExpr); !ok {
			return elts
		}
	}
	out := append([]ast.Expr(nil), elts...)
	sort.SliceStable(out, func(i, j int) bool {
		return Canon(out[i]) < Canon(out[j])
	})
	return out
}

func (d *differ) eq(a, b reflect.Value) bool {
	if a.IsValid() != b.IsValid() {
		return d.fail("validity")
	}
	if !a.IsValid() {
		return true
	}
	// unwrap interfaces
	if a.Kind() == reflect.Interface || b.Kind() == reflect.Interface {
		if a.Kind() == reflect.Interface {
			if a.IsNil() {
				if b.Kind() == reflect.Interface && b.IsNil() {
					return true
				}
				if b.Kind() == reflect.Ptr && b.IsNil() {
					return true
				}
				// nil vs implicit empty stmt / nil results handled below
				return d.fail("nil vs %v", b.Type())
			}
			a = a.Elem()
		}
		if b.Kind() == reflect.Interface {
			if b.IsNil() {
				return d.fail("%v vs nil", a.Type())
			}
			b = b.Elem()
		}
	}
	// expression-level normalisation
	if ae, ok := a.Interface().(ast.Expr); ok {
		if be, ok := b.Interface().(ast.Expr); ok {
			ae, be = unparen(ae), unparen(be)
			a, b = reflect.ValueOf(ae), reflect.ValueOf(be)
		}
	}
	if a.Type() != b.Type() {
		return d.fail("type %v vs %v", a.Type(), b.Type())
	}
	switch a.Kind() {
	case reflect.Ptr:
		if a.IsNil() || b.IsNil() {
			if a.IsNil() && b.IsNil() {
				return true
			}
			// empty FieldList == nil
			if fl, ok := a.Interface().(*ast.FieldList); ok {
				o := b.Interface().(*ast.FieldList)
				if (fl == nil || len(fl.List) == 0) && (o == nil || len(o.List) == 0) {
					return true
				}
			}
			return d.fail("nil mismatch %v", a.Type())
		}
		switch x := a.Interface().(type) {
		case *ast.Object, *ast.Scope, *ast.CommentGroup, *ast.Comment:
			return true
		case *ast.BasicLit:
			y := b.Interface().(*ast.BasicLit)
			if x.Kind == y.Kind && x.Value == y.Value {
				return true
			}
			if x.Kind != y.Kind {
				return d.fail("lit kind %v %q vs %v %q", x.Kind, x.Value, y.Kind, y.Value)
			}
			va := constant.MakeFromLiteral(x.Value, x.Kind, 0)
			vb := constant.MakeFromLiteral(y.Value, y.Kind, 0)
			if va.Kind() == constant.Unknown || vb.Kind() == constant.Unknown || !constant.Compare(va, token.EQL, vb) {
				return d.fail("lit value %s vs %s", x.Value, y.Value)
			}
			return true
		case *ast.BlockStmt:
			y := b.Interface().(*ast.BlockStmt)
			return d.eq(reflect.ValueOf(dropEmpty(x.List)), reflect.ValueOf(dropEmpty(y.List)))
		case *ast.CaseClause:
			y := b.Interface().(*ast.CaseClause)
			d.path = append(d.path, "CaseClause")
			defer func() { d.path = d.path[:len(d.path)-1] }()
			return d.eq(reflect.ValueOf(x.List), reflect.ValueOf(y.List)) && d.eq(reflect.ValueOf(dropEmpty(x.Body)), reflect.ValueOf(dropEmpty(y.Body)))
		case *ast.CommClause:
			y := b.Interface().(*ast.CommClause)
			d.path = append(d.path, "CommClause")
			defer func() { d.path = d.path[:len(d.path)-1] }()
			return d.eq(reflect.ValueOf(&x.Comm).Elem(), reflect.ValueOf(&y.Comm).Elem()) && d.eq(reflect.ValueOf(dropEmpty(x.Body)), reflect.ValueOf(dropEmpty(y.Body)))
		case *ast.CompositeLit:
			y := b.Interface().(*ast.CompositeLit)
			d.path = append(d.path, "CompositeLit")
			defer func() { d.path = d.path[:len(d.path)-1] }()
			return d.eq(reflect.ValueOf(&x.Type).Elem(), reflect.ValueOf(&y.Type).Elem()) && d.eq(reflect.ValueOf(sortedKV(x.Elts)), reflect.ValueOf(sortedKV(y.Elts)))
		}
		return d.eq(a.Elem(), b.Elem())
	case reflect.Struct:
		tn := a.Type().Name()
		for i := 0; i < a.NumField(); i++ {
			f := a.Type().Field(i)
			if f.Type == posType {
				if posValidityMatters[tn+"."+f.Name] {
					if token.Pos(a.Field(i).Int()).IsValid() != token.Pos(b.Field(i).Int()).IsValid() {
						return d.fail("%s.%s validity", tn, f.Name)
					}
				}
				continue
			}
			if f.Name == "Implicit" || f.Name == "Incomplete" {
				continue
			}
			d.path = append(d.path, tn+"."+f.Name)
			ok := d.eq(a.Field(i), b.Field(i))
			d.path = d.path[:len(d.path)-1]
			if !ok {
				return false
			}
		}
		return true
	case reflect.Slice:
		if a.Len() != b.Len() {
			return d.fail("len %d vs %d (%v)", a.Len(), b.Len(), a.Type())
		}
		for i := 0; i < a.Len(); i++ {
			d.path = append(d.path, fmt.Sprint(i))
			ok := d.eq(a.Index(i), b.Index(i))
			d.path = d.path[:len(d.path)-1]
			if !ok {
				return false
			}
		}
		return true
	case reflect.String:
		if a.String() != b.String() {
			return d.fail("%q vs %q", a.String(), b.String())
		}
		return true
	case reflect.Int, reflect.Int64, reflect.Int32:
		if a.Int() != b.Int() {
			return d.fail("int %d vs %d", a.Int(), b.Int())
		}
		return true
	case reflect.Bool:
		if a.Bool() != b.Bool() {
			return d.fail("bool")
		}
		return true
	case reflect.Map:
		return true
	}
	return d.fail("unhandled kind %v", a.Kind())
}

func DeclsEqual(a, b ast.Decl) (bool, string) {
	d := &differ{}
	ok := d.eq(reflect.ValueOf(&a).Elem(), reflect.ValueOf(&b).Elem())
	return ok, d.msg
}


// canon renders an expression to text with literals replaced by their exact values, parens dropped and
// all-keyed composite literal elements sorted, so that the same expression gets the same text on both sides.
func Canon(e ast.Node) string {
	var b bytes.Buffer
	var w func(n ast.Node) bool
	w = func(n ast.Node) bool {
		switch x := n.(type) {
		case *ast.BasicLit:
			v := constant.MakeFromLiteral(x.Value, x.Kind, 0)
			if v.Kind() == constant.Unknown {
				b.WriteString(x.Value)
			} else {
				b.WriteString(v.ExactString())
			}
			b.WriteByte(' ')
			return false
		case *ast.Ident:
			b.WriteString(x.Name)
			b.WriteByte(' ')
			return false
		case *ast.ParenExpr:
			return true
		case *ast.CompositeLit:
			b.WriteString("CL( ")
			if x.Type != nil {
				b.WriteString(Canon(x.Type))
			}
			b.WriteString("{ ")
			var parts []string
			allKV := len(x.Elts) > 0
			for _, el := range x.Elts {
				if _, ok := el.(*ast.KeyValueExpr); !ok {
					allKV = false
				}
				parts = append(parts, Canon(el))
			}
			if allKV {
				sort.Strings(parts)
			}
			for _, p := range parts {
				b.WriteString(p)
				b.WriteString(", ")
			}
			b.WriteString("}) ")
			return false
		case nil:
			b.WriteString(") ")
			return false
		}
		b.WriteString(fmt.Sprintf("%T( ", n))
		switch x := n.(type) {
		case *ast.BinaryExpr:
			b.WriteString(x.Op.String() + " ")
		case *ast.UnaryExpr:
			b.WriteString(x.Op.String() + " ")
		}
		return true
	}
	ast.Inspect(e, w)
	return b.String()
}

// NodesEqual compares two AST nodes with the same normalisations as DeclsEqual.
func NodesEqual(a, b ast.Node) (bool, string) {
	d := &differ{}
	ok := d.eq(reflect.ValueOf(&a).Elem(), reflect.ValueOf(&b).Elem())
	return ok, d.msg
}
