module verifharness

go 1.22

require github.com/dave/jennifer v0.0.0

replace github.com/dave/jennifer => /repo
