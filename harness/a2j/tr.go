// Package a2j translates go/ast into jennifer calls (W1), using for each construct the DSL element the
// README documents for it. The translator has knobs (style, forms, nulls, comments, damage, wrap), each
// drawing from its own PRNG stream so that switching one on never perturbs the choices of another.
package a2j

import (
	"unicode/utf8"
	"fmt"
	"go/ast"
	"go/constant"
	"go/token"
	"math"
	"math/rand"
	"sort"
	"strconv"
	"strings"

	"github.com/dave/jennifer/jen"
)

type SkipErr struct{ Why string }

func (s SkipErr) Error() string { return "skip: " + s.Why }

func skip(why string) { panic(SkipErr{why}) }

// Knobs selects the builder-layer variations.
type Knobs struct {
	Nulls    bool // inject items that must render nothing into every list (C13)
	Comments bool // inject Comment items / end-of-item comments (C15)
	Forms    bool // choose variadic vs …Func form (and function vs method form) per list construct (C14)
	Clones   bool // now and then an expression is kept as a template: the statement used is a Clone of it, and a second Clone is extended later (C01/C20)
	Damage   bool // damage one list of the program (C02)
	DamageAt int  // which list (1-based, in construction order) to damage; 0 = pick 1..40 at random
	// Wrap, if set, may replace an item by a wrapper around it (probes, C10/C07)
	Wrap func(item jen.Code, kind string) jen.Code
}

type Tr struct {
	imports map[string]string // local name -> path
	knobs   Knobs
	rnd     *rand.Rand // style
	nrnd    *rand.Rand // nulls
	crnd    *rand.Rand // comments
	frnd    *rand.Rand // forms
	drnd    *rand.Rand // damage
	clrnd   *rand.Rand // clones
	decoys  []*jen.Statement
	Stats   map[string]int
	// Comments holds the text of every injected comment, in injection order.
	Comments  []string
	ncomments int
	// Damaged describes the damage done ("" if none).
	Damaged   string
	damageAt  int
	inDictKey int
	// ListCount is the number of list constructs built so far (the File's own item list included).
	ListCount int
}

func seedFor(seed int64, stream int64) int64 { return seed*1000003 + stream*7919 + 17 }

func NewTr(seed int64, k Knobs) *Tr {
	t := &Tr{imports: map[string]string{}, knobs: k, Stats: map[string]int{},
		rnd:  rand.New(rand.NewSource(seedFor(seed, 1))),
		nrnd: rand.New(rand.NewSource(seedFor(seed, 2))),
		crnd: rand.New(rand.NewSource(seedFor(seed, 3))),
		frnd: rand.New(rand.NewSource(seedFor(seed, 4))),
		drnd: rand.New(rand.NewSource(seedFor(seed, 5))),
		clrnd: rand.New(rand.NewSource(seedFor(seed, 6))),
	}
	t.damageAt = -1
	return t
}

var CommentTexts = []string{"plain", "x := y{", "} else {", "\"quoted\" `back` 'c'", "日本語 ünï", "multi\nline", "trailing newline\n", "a\n\nb }\n) ]", "if x { return }", "\\ backslash \\n", "func() {", "tab\there", "\nleading newline", "", " ", "/ slash", "* star", "x // y", "x /* y", "\n", "a\n", "100% sure %d", " /* TODO", "  // a\nb := c", "\t//x", " ", "  leading spaces", "keep a\rpanic(1)", "cr at end\r", "a\r\nb"}

// cmt injects comments as own items and at the end of items (hosts: Block, Defs, Struct, Interface, case bodies, File).
func (t *Tr) cmt(items []jen.Code) []jen.Code { return t.cmt2(items, true) }

func (t *Tr) cmt2(items []jen.Code, endOK bool) []jen.Code {
	if !t.knobs.Comments || t.inDictKey > 0 {
		// Inside a Dict key a comment is part of the key's rendered text, by which Dict orders its pairs
		// (C16): the pairs may then legitimately come out in another order, so no comment goes there.
		return items
	}
	text := func() string {
		t.ncomments++
		body := CommentTexts[t.crnd.Intn(len(CommentTexts))]
		marker := fmt.Sprintf("CM%dQ", t.ncomments)
		if t.crnd.Intn(12) == 0 {
			// the documented raw forms: text that already is a comment is rendered as it is
			switch t.crnd.Intn(4) {
			case 0:
				return "/* " + marker + " inline */"
			case 1:
				return "/* " + marker + " inline */" + []string{" ", "\t", "  "}[t.crnd.Intn(3)]
			case 2:
				return "// " + marker + " raw line"
			default:
				return "/*\n" + marker + " raw\nblock\n*/"
			}
		}
		if strings.HasPrefix(body, "\n") {
			return "\n" + marker + " " + body[1:] // keep the leading newline leading
		}
		if strings.HasPrefix(body, " ") || strings.HasPrefix(body, "\t") {
			return body + " " + marker // keep leading white space leading
		}
		return marker + " " + body
	}
	// the ways of saying the same comment: Comment(text); Commentf with the text as only operand, split over two
	// operands, or as the format itself (percent signs doubled, no operands)
	on := func(st *jen.Statement, tx string) *jen.Statement {
		switch t.crnd.Intn(8) {
		case 0:
			return st.Commentf("%s", tx)
		case 1:
			return st.Commentf(strings.ReplaceAll(tx, "%", "%%"))
		case 2:
			h := len(tx) / 2
			for h > 0 && h < len(tx) && !utf8.RuneStart(tx[h]) {
				h--
			}
			return st.Commentf("%s%v", tx[:h], tx[h:])
		}
		return st.Comment(tx)
	}
	mk := func(tx string) *jen.Statement { return on(&jen.Statement{}, tx) }
	out := make([]jen.Code, 0, len(items)+2)
	for _, it := range items {
		var lead *jen.Statement
		if t.crnd.Intn(6) == 0 {
			t.hit("comment.own")
			tx := text()
			t.Comments = append(t.Comments, tx)
			if st, ok := it.(*jen.Statement); ok && st != nil && t.crnd.Intn(3) == 0 {
				// the usual idiom: the comment leads the statement it describes, separated by Line()
				lead = mk(tx).Line()
				t.hit("comment.lead")
			} else {
				out = append(out, mk(tx))
			}
		}
		if st, ok := it.(*jen.Statement); ok && endOK && t.crnd.Intn(6) == 0 {
			t.hit("comment.end")
			tx := text()
			t.Comments = append(t.Comments, tx)
			on(st, tx)
		}
		if lead != nil {
			it = lead.Add(it)
		}
		out = append(out, it)
	}
	if t.crnd.Intn(8) == 0 {
		t.hit("comment.last")
		tx := text()
		t.Comments = append(t.Comments, tx)
		out = append(out, mk(tx))
	}
	return out
}

// inj inserts items that must render nothing at random positions of a list.
func (t *Tr) inj(items []jen.Code) []jen.Code {
	if !t.knobs.Nulls {
		return items
	}
	out := make([]jen.Code, 0, len(items)+4)
	null := func() {
		for t.nrnd.Intn(3) == 0 {
			t.hit("inject")
			switch t.nrnd.Intn(10) {
			case 0:
				out = append(out, nil)
			case 1:
				out = append(out, jen.Null())
			case 2:
				out = append(out, jen.Add())
			case 3:
				out = append(out, jen.List())
			case 4:
				out = append(out, jen.Union())
			case 5:
				out = append(out, jen.Tag(nil))
			case 6:
				out = append(out, jen.List(jen.Null(), jen.Add(jen.Null())))
			case 7:
				out = append(out, (*jen.Statement)(nil))
			case 8:
				out = append(out, jen.Add(nil, jen.Null()))
			default:
				out = append(out, jen.Union(nil, jen.List(nil, jen.Null())))
			}
		}
	}
	for _, it := range items {
		null()
		out = append(out, it)
	}
	null()
	return out
}

func (t *Tr) coin() bool   { return t.rnd.Intn(2) == 0 }
func (t *Tr) hit(k string) { t.Stats[k]++ }

type listAPI struct {
	fn  func(...jen.Code) *jen.Statement
	fnF func(func(*jen.Group)) *jen.Statement
	m   func(*jen.Statement, ...jen.Code) *jen.Statement
	mF  func(*jen.Statement, func(*jen.Group)) *jen.Statement
}

var lists = map[string]listAPI{
	"Block":     {jen.Block, jen.BlockFunc, (*jen.Statement).Block, (*jen.Statement).BlockFunc},
	"Call":      {jen.Call, jen.CallFunc, (*jen.Statement).Call, (*jen.Statement).CallFunc},
	"Params":    {jen.Params, jen.ParamsFunc, (*jen.Statement).Params, (*jen.Statement).ParamsFunc},
	"List":      {jen.List, jen.ListFunc, (*jen.Statement).List, (*jen.Statement).ListFunc},
	"Values":    {jen.Values, jen.ValuesFunc, (*jen.Statement).Values, (*jen.Statement).ValuesFunc},
	"Index":     {jen.Index, jen.IndexFunc, (*jen.Statement).Index, (*jen.Statement).IndexFunc},
	"Defs":      {jen.Defs, jen.DefsFunc, (*jen.Statement).Defs, (*jen.Statement).DefsFunc},
	"Case":      {jen.Case, jen.CaseFunc, (*jen.Statement).Case, (*jen.Statement).CaseFunc},
	"Types":     {jen.Types, jen.TypesFunc, (*jen.Statement).Types, (*jen.Statement).TypesFunc},
	"Union":     {jen.Union, jen.UnionFunc, (*jen.Statement).Union, (*jen.Statement).UnionFunc},
	"Return":    {jen.Return, jen.ReturnFunc, (*jen.Statement).Return, (*jen.Statement).ReturnFunc},
	"If":        {jen.If, jen.IfFunc, (*jen.Statement).If, (*jen.Statement).IfFunc},
	"For":       {jen.For, jen.ForFunc, (*jen.Statement).For, (*jen.Statement).ForFunc},
	"Switch":    {jen.Switch, jen.SwitchFunc, (*jen.Statement).Switch, (*jen.Statement).SwitchFunc},
	"Interface": {jen.Interface, jen.InterfaceFunc, (*jen.Statement).Interface, (*jen.Statement).InterfaceFunc},
	"Struct":    {jen.Struct, jen.StructFunc, (*jen.Statement).Struct, (*jen.Statement).StructFunc},
	"Append":    {jen.Append, jen.AppendFunc, (*jen.Statement).Append, (*jen.Statement).AppendFunc},
	"Min":       {jen.Min, jen.MinFunc, (*jen.Statement).Min, (*jen.Statement).MinFunc},
	"Max":       {jen.Max, jen.MaxFunc, (*jen.Statement).Max, (*jen.Statement).MaxFunc},
	"Print":     {jen.Print, jen.PrintFunc, (*jen.Statement).Print, (*jen.Statement).PrintFunc},
	"Println":   {jen.Println, jen.PrintlnFunc, (*jen.Statement).Println, (*jen.Statement).PrintlnFunc},
	"Make":      {jen.Make, nil, (*jen.Statement).Make, nil},
}

// L applies list construct name to s (nil = start a new statement) with the given items. With the forms
// knob it chooses among the variadic / …Func and function / method forms.
func (t *Tr) L(s *jen.Statement, name string, items []jen.Code) *jen.Statement {
	api, ok := lists[name]
	if !ok {
		panic("a2j: unknown list construct " + name)
	}
	t.hit("list." + name)
	if n := len(items); n > t.Stats["maxarity."+name] {
		t.Stats["maxarity."+name] = n
	}
	items = t.damage(name, items)
	if t.knobs.Wrap != nil {
		for i, it := range items {
			if it != nil {
				items[i] = t.knobs.Wrap(it, name)
			}
		}
	}
	form := 0
	spread := false
	if t.knobs.Forms {
		form = t.frnd.Intn(4)
		if api.fnF == nil {
			form &= 1
		}
		spread = t.frnd.Intn(3) == 0
	}
	filler := func(g *jen.Group) {
		for _, it := range items {
			g.Add(it)
		}
	}
	switch {
	case s == nil && form&2 == 0:
		t.hit("form.func")
		return api.fn(items...)
	case s == nil:
		t.hit("form.funcFunc")
		return api.fnF(filler)
	case form == 0:
		t.hit("form.method")
		return api.m(s, items...)
	case form == 1 && spread:
		// the items of a separately built statement spread into the receiver: s.Add(*X(items...)...) puts the
		// very same group after the receiver's tokens (also fine for a Block after Case: the group is then an
		// item of the case statement itself)
		t.hit("form.add(spread func)")
		return s.Add(*api.fn(items...)...)
	case form == 1:
		// function form added to the receiver: s.Add(X(items...)) — only when the construct does not look
		// at its predecessor (Block after Case does)
		if name == "Block" {
			return api.m(s, items...)
		}
		t.hit("form.add(func)")
		return s.Add(api.fn(items...))
	case form == 2:
		t.hit("form.methodFunc")
		return api.mF(s, filler)
	default:
		if name == "Block" {
			return api.mF(s, filler)
		}
		t.hit("form.add(funcFunc)")
		return s.Add(api.fnF(filler))
	}
}

// damage alters one list of the program so that the composition is (most probably) not valid Go.
func (t *Tr) damage(name string, items []jen.Code) []jen.Code {
	t.ListCount++
	if !t.knobs.Damage {
		return items
	}
	if t.damageAt < 0 {
		t.damageAt = t.knobs.DamageAt
		if t.damageAt <= 0 {
			t.damageAt = 1 + t.drnd.Intn(40)
		}
	}
	if t.ListCount != t.damageAt {
		return items
	}
	out := append([]jen.Code(nil), items...)
	kind := t.drnd.Intn(7)
	pos := 0
	if len(out) > 0 {
		pos = t.drnd.Intn(len(out))
	}
	stray := []string{"}", "(", "{", ")", "]", "[", ":=", "...", ";", ",", "else", "case", "func", "."}
	switch {
	case kind == 0 && len(out) > 0:
		out = append(out[:pos], out[pos+1:]...)
		t.Damaged = fmt.Sprintf("dropped item %d of %s", pos, name)
	case kind == 1 && len(out) > 0:
		out = append(out[:pos+1], out[pos:]...)
		t.Damaged = fmt.Sprintf("duplicated item %d of %s", pos, name)
	case kind == 2 && len(out) > 1:
		j := t.drnd.Intn(len(out))
		out[pos], out[j] = out[j], out[pos]
		t.Damaged = fmt.Sprintf("swapped items %d and %d of %s", pos, j, name)
	case kind == 3:
		op := stray[t.drnd.Intn(len(stray))]
		out = append(out, nil)
		copy(out[pos+1:], out[pos:])
		out[pos] = jen.Op(op)
		t.Damaged = fmt.Sprintf("inserted stray %q at %d of %s", op, pos, name)
	case kind == 4 && len(out) > 0:
		op := stray[t.drnd.Intn(len(stray))]
		out[pos] = jen.Op(op)
		t.Damaged = fmt.Sprintf("replaced item %d of %s by %q", pos, name, op)
	case kind == 5:
		out = append(out, jen.If(jen.Id("x")).Block(jen.Return()), jen.Var().Id("y").Int())
		t.Damaged = fmt.Sprintf("appended unrelated statements to %s", name)
	default:
		out = append(out, jen.Lit("stray").Lit(1))
		t.Damaged = fmt.Sprintf("appended two adjacent literals to %s", name)
	}
	return out
}

// typedLit: a conversion of a plain number literal to a sized numeric type, T(lit), is what Lit renders for a value of
// that type; half of the time such a conversion is spelled Lit(T(v)) (only when the literal is what Lit prints for v:
// decimal, shortest form).
func (t *Tr) typedLit(x *ast.CallExpr) *jen.Statement {
	id, ok := x.Fun.(*ast.Ident)
	if !ok || id.Obj != nil || len(x.Args) != 1 || x.Ellipsis.IsValid() {
		return nil
	}
	text, neg := "", false
	switch a := x.Args[0].(type) {
	case *ast.BasicLit:
		text = a.Value
	case *ast.UnaryExpr:
		if bl, ok := a.X.(*ast.BasicLit); ok && a.Op == token.SUB {
			text, neg = bl.Value, true
		}
	}
	if text == "" {
		return nil
	}
	if neg {
		text = "-" + text
	}
	var v interface{}
	switch id.Name {
	case "float32":
		f, err := strconv.ParseFloat(text, 32)
		if err != nil {
			return nil
		}
		v = float32(f)
	case "int8", "int16", "int32", "int64":
		n, err := strconv.ParseInt(text, 10, map[string]int{"int8": 8, "int16": 16, "int32": 32, "int64": 64}[id.Name])
		if err != nil {
			return nil
		}
		v = map[string]interface{}{"int8": int8(n), "int16": int16(n), "int32": int32(n), "int64": n}[id.Name]
	case "uint", "uint8", "uint16", "uint32", "uint64", "uintptr":
		n, err := strconv.ParseUint(text, 10, map[string]int{"uint": 64, "uint8": 8, "uint16": 16, "uint32": 32, "uint64": 64, "uintptr": 64}[id.Name])
		if err != nil {
			return nil
		}
		v = map[string]interface{}{"uint": uint(n), "uint8": uint8(n), "uint16": uint16(n), "uint32": uint32(n), "uint64": n, "uintptr": uintptr(n)}[id.Name]
	default:
		return nil
	}
	// only when the source spells the number the way Lit does (so that the re-parsed literal is the same token)
	if fmt.Sprintf("%s(%#v)", id.Name, v) != id.Name+"("+text+")" && !(id.Name == "float32" && fmt.Sprintf("%v", v) == text) {
		return nil
	}
	if !t.coin() {
		return nil
	}
	t.hit("typed-lit")
	return jen.Lit(v)
}

var predecl = map[string]func() *jen.Statement{
	"bool": jen.Bool, "byte": jen.Byte, "complex64": jen.Complex64, "complex128": jen.Complex128, "error": jen.Error,
	"float32": jen.Float32, "float64": jen.Float64, "int": jen.Int, "int8": jen.Int8, "int16": jen.Int16, "int32": jen.Int32,
	"int64": jen.Int64, "rune": jen.Rune, "string": jen.String, "uint": jen.Uint, "uint8": jen.Uint8, "uint16": jen.Uint16,
	"uint32": jen.Uint32, "uint64": jen.Uint64, "uintptr": jen.Uintptr, "true": jen.True, "false": jen.False, "iota": jen.Iota,
	"nil": jen.Nil, "err": jen.Err, "any": jen.Any, "comparable": jen.Comparable,
}

func (t *Tr) ident(id *ast.Ident) *jen.Statement {
	if f, ok := predecl[id.Name]; ok && t.coin() {
		t.hit("ident.predecl")
		return f()
	}
	t.hit("ident.Id")
	return jen.Id(id.Name)
}

func (t *Tr) exprs(es []ast.Expr) []jen.Code {
	out := make([]jen.Code, 0, len(es))
	for _, e := range es {
		out = append(out, t.expr(e))
	}
	return out
}

func (t *Tr) listOrOne(es []ast.Expr) *jen.Statement {
	if len(es) == 1 && t.coin() {
		return t.expr(es[0])
	}
	return t.L(nil, "List", t.inj(t.exprs(es)))
}

func (t *Tr) lit(l *ast.BasicLit) *jen.Statement {
	switch l.Kind {
	case token.INT:
		v := constant.MakeFromLiteral(l.Value, l.Kind, 0)
		if i, ok := constant.Int64Val(v); ok && i >= math.MinInt && i <= math.MaxInt {
			t.hit("lit.int")
			if t.rnd.Intn(4) == 0 {
				n := int(i)
				return jen.LitFunc(func() interface{} { return n })
			}
			return jen.Lit(int(i))
		}
		t.hit("lit.int.raw")
		return jen.Op(l.Value)
	case token.FLOAT:
		v := constant.MakeFromLiteral(l.Value, l.Kind, 0)
		f, _ := constant.Float64Val(v)
		if !math.IsInf(f, 0) && constant.Compare(constant.MakeFromLiteral(strconv.FormatFloat(f, 'g', -1, 64), token.FLOAT, 0), token.EQL, v) {
			t.hit("lit.float")
			return jen.Lit(f)
		}
		t.hit("lit.float.raw")
		return jen.Op(l.Value)
	case token.IMAG:
		t.hit("lit.imag.raw")
		return jen.Op(l.Value)
	case token.CHAR:
		if _, err := strconv.Unquote(l.Value); err != nil {
			skip("bad char lit")
		}
		v := constant.MakeFromLiteral(l.Value, l.Kind, 0)
		i, _ := constant.Int64Val(v)
		t.hit("lit.rune")
		return jen.LitRune(rune(i))
	case token.STRING:
		s, err := strconv.Unquote(l.Value)
		if err != nil {
			skip("bad string lit")
		}
		t.hit("lit.string")
		return jen.Lit(s)
	}
	skip("unknown lit kind")
	return nil
}

func (t *Tr) fieldList(fl *ast.FieldList) []jen.Code {
	if fl == nil {
		return nil
	}
	var out []jen.Code
	for _, f := range fl.List {
		out = append(out, t.field(f, false)...)
	}
	return out
}

// field returns the item(s) for a parameter/struct field
func (t *Tr) field(f *ast.Field, isStruct bool) []jen.Code {
	var s *jen.Statement
	typ := t.expr(f.Type)
	switch {
	case len(f.Names) == 0:
		s = typ
	case len(f.Names) == 1:
		s = jen.Id(f.Names[0].Name).Add(typ)
	default:
		if !isStruct && t.coin() {
			// README style: b, c string as separate items
			var out []jen.Code
			for i, n := range f.Names {
				if i == len(f.Names)-1 {
					out = append(out, jen.Id(n.Name).Add(typ))
				} else {
					out = append(out, jen.Id(n.Name))
				}
			}
			t.hit("field.split")
			return out
		}
		var ids []jen.Code
		for _, n := range f.Names {
			ids = append(ids, jen.Id(n.Name))
		}
		s = t.L(nil, "List", t.inj(ids)).Add(typ)
	}
	if f.Tag != nil {
		val, err := strconv.Unquote(f.Tag.Value)
		if err != nil {
			skip("bad tag")
		}
		if m, ok := parseTag(val); ok && t.coin() {
			t.hit("field.Tag")
			s.Tag(m)
		} else {
			t.hit("field.tagLit")
			s.Lit(val)
		}
	}
	return []jen.Code{s}
}

// parseTag parses conventional tags; ok only if re-rendering the canonical form equals the original
func parseTag(tag string) (map[string]string, bool) {
	orig := tag
	m := map[string]string{}
	var keys []string
	for tag != "" {
		i := 0
		for i < len(tag) && tag[i] == ' ' {
			i++
		}
		tag = tag[i:]
		if tag == "" {
			break
		}
		i = 0
		for i < len(tag) && tag[i] > ' ' && tag[i] != ':' && tag[i] != '"' && tag[i] != 0x7f {
			i++
		}
		if i == 0 || i+1 >= len(tag) || tag[i] != ':' || tag[i+1] != '"' {
			return nil, false
		}
		name := tag[:i]
		tag = tag[i+1:]
		i = 1
		for i < len(tag) && tag[i] != '"' {
			if tag[i] == '\\' {
				i++
			}
			i++
		}
		if i >= len(tag) {
			return nil, false
		}
		q := tag[:i+1]
		tag = tag[i+1:]
		v, err := strconv.Unquote(q)
		if err != nil {
			return nil, false
		}
		if _, dup := m[name]; dup {
			return nil, false
		}
		m[name] = v
		keys = append(keys, name)
	}
	if len(m) == 0 {
		return nil, false
	}
	sort.Strings(keys)
	var sb strings.Builder
	for i, k := range keys {
		if i > 0 {
			sb.WriteByte(' ')
		}
		fmt.Fprintf(&sb, "%s:%q", k, m[k])
	}
	return m, sb.String() == orig
}

func (t *Tr) funcType(s *jen.Statement, ft *ast.FuncType) *jen.Statement {
	if ft.TypeParams != nil {
		s = t.L(s, "Types", t.inj(t.fieldList(ft.TypeParams)))
	}
	s = t.L(s, "Params", t.inj(t.fieldList(ft.Params)))
	if ft.Results != nil && len(ft.Results.List) > 0 {
		r := ft.Results.List
		if len(r) == 1 && len(r[0].Names) == 0 && t.coin() {
			t.hit("result.bare")
			s.Add(t.expr(r[0].Type))
		} else {
			t.hit("result.params")
			s = t.L(s, "Params", t.inj(t.fieldList(ft.Results)))
		}
	}
	return s
}

var builtin1 = map[string]func(jen.Code) *jen.Statement{
	"cap": jen.Cap, "close": jen.Close, "clear": jen.Clear, "imag": jen.Imag, "len": jen.Len, "new": jen.New, "panic": jen.Panic, "real": jen.Real,
}
var builtin2 = map[string]func(a, b jen.Code) *jen.Statement{"complex": jen.Complex, "copy": jen.Copy, "delete": jen.Delete}
var builtinN = map[string]string{"append": "Append", "min": "Min", "max": "Max", "make": "Make", "print": "Print", "println": "Println"}

// expr translates an expression. With Knobs.Clones, now and then the translation is kept as a template the way a
// generator keeps a common prefix: the statement handed on (and extended by the caller: .Dot, .Call, .Index …) is a
// Clone of it, and a sibling Clone is extended with a token of its own after everything else was built (Finish).
// Nothing appended to one clone may show in the other or in the output.
func (t *Tr) expr(e ast.Expr) *jen.Statement {
	s := t.expr0(e)
	if t.knobs.Clones && s != nil && t.inDictKey == 0 && t.clrnd.Intn(10) == 0 {
		used := s.Clone()
		if t.clrnd.Intn(2) == 0 {
			used = used.Clone() // a clone of a clone
		}
		sibling := s.Clone()
		t.decoys = append(t.decoys, sibling)
		t.hit("clone.template")
		return used
	}
	return s
}

// Finish extends every sibling clone by a token of its own (after the whole tree was built and the clones that are
// part of it were extended by their callers).
func (t *Tr) Finish() {
	for i, d := range t.decoys {
		d.Id(fmt.Sprintf("decoy%dQ", i)).Call(jen.Lit(i))
	}
}

func (t *Tr) expr0(e ast.Expr) *jen.Statement {
	switch x := e.(type) {
	case nil:
		skip("nil expr")
	case *ast.BadExpr:
		skip("bad expr")
	case *ast.Ident:
		return t.ident(x)
	case *ast.Ellipsis:
		t.hit("ellipsis")
		if x.Elt == nil {
			return jen.Op("...")
		}
		return jen.Op("...").Add(t.expr(x.Elt))
	case *ast.BasicLit:
		return t.lit(x)
	case *ast.FuncLit:
		t.hit("funclit")
		return t.L(t.funcType(jen.Func(), x.Type), "Block", t.inj(t.cmt(t.stmts(x.Body.List))))
	case *ast.CompositeLit:
		var s *jen.Statement
		if x.Type != nil {
			s = t.expr(x.Type)
		} else {
			s = &jen.Statement{}
		}
		allKV := len(x.Elts) > 0
		for _, el := range x.Elts {
			if _, ok := el.(*ast.KeyValueExpr); !ok {
				allKV = false
			}
		}
		if allKV && t.coin() {
			d := jen.Dict{}
			viaFunc := t.rnd.Intn(3) == 0
			var pairs [][2]jen.Code
			for _, el := range x.Elts {
				kv := el.(*ast.KeyValueExpr)
				t.inDictKey++
				k := t.expr(kv.Key)
				t.inDictKey--
				v := t.expr(kv.Value)
				d[k] = v
				pairs = append(pairs, [2]jen.Code{k, v})
			}
			t.hit("complit.dict")
			if viaFunc {
				return s.Values(jen.DictFunc(func(dd jen.Dict) {
					for _, p := range pairs {
						dd[p[0]] = p[1]
					}
				}))
			}
			return s.Values(d)
		}
		var items []jen.Code
		for _, el := range x.Elts {
			if kv, ok := el.(*ast.KeyValueExpr); ok {
				items = append(items, t.expr(kv.Key).Op(":").Add(t.expr(kv.Value)))
			} else {
				items = append(items, t.expr(el))
			}
		}
		t.hit("complit.values")
		return t.L(s, "Values", t.inj(items))
	case *ast.ParenExpr:
		t.hit("parens")
		return jen.Parens(t.expr(x.X))
	case *ast.SelectorExpr:
		if id, ok := x.X.(*ast.Ident); ok && id.Obj == nil {
			if path, ok := t.imports[id.Name]; ok {
				t.hit("qual")
				return jen.Qual(path, x.Sel.Name)
			}
		}
		t.hit("dot")
		return t.expr(x.X).Dot(x.Sel.Name)
	case *ast.IndexExpr:
		t.hit("index")
		return t.L(t.expr(x.X), "Index", []jen.Code{t.expr(x.Index)})
	case *ast.IndexListExpr:
		t.hit("indexlist.types")
		return t.L(t.expr(x.X), "Types", t.inj(t.exprs(x.Indices)))
	case *ast.SliceExpr:
		opt := func(e ast.Expr) jen.Code {
			if e == nil {
				return jen.Empty()
			}
			return t.expr(e)
		}
		if x.Slice3 {
			t.hit("slice3")
			return t.L(t.expr(x.X), "Index", []jen.Code{opt(x.Low), opt(x.High), opt(x.Max)})
		}
		t.hit("slice2")
		return t.L(t.expr(x.X), "Index", []jen.Code{opt(x.Low), opt(x.High)})
	case *ast.TypeAssertExpr:
		if x.Type == nil {
			t.hit("assert.type")
			return t.expr(x.X).Assert(jen.Type())
		}
		t.hit("assert")
		return t.expr(x.X).Assert(t.expr(x.Type))
	case *ast.CallExpr:
		if st := t.typedLit(x); st != nil {
			return st
		}
		args := t.exprs(x.Args)
		if x.Ellipsis.IsValid() {
			args[len(args)-1].(*jen.Statement).Op("...")
		}
		if id, ok := x.Fun.(*ast.Ident); ok && id.Obj == nil && t.coin() {
			if f, ok := builtin1[id.Name]; ok && len(args) == 1 {
				t.hit("builtin1")
				return f(args[0])
			}
			if f, ok := builtin2[id.Name]; ok && len(args) == 2 {
				t.hit("builtin2")
				return f(args[0], args[1])
			}
			if name, ok := builtinN[id.Name]; ok {
				t.hit("builtinN")
				return t.L(nil, name, t.inj(args))
			}
			if id.Name == "recover" && len(args) == 0 {
				t.hit("recover")
				return jen.Recover()
			}
		}
		t.hit("call")
		return t.L(t.expr(x.Fun), "Call", t.inj(args))
	case *ast.StarExpr:
		t.hit("star")
		return jen.Op("*").Add(t.expr(x.X))
	case *ast.UnaryExpr:
		t.hit("unary")
		return jen.Op(x.Op.String()).Add(t.expr(x.X))
	case *ast.BinaryExpr:
		if x.Op == token.OR && t.rnd.Intn(4) == 0 {
			// could be a union; Union is just a '|' separated list
			t.hit("binary.union")
			return t.L(nil, "Union", t.inj([]jen.Code{t.expr(x.X), t.expr(x.Y)}))
		}
		t.hit("binary")
		// Half of the binary expressions (chosen by the operator's position, so that no PRNG stream shifts) are built
		// flat, as a user chaining calls would: the right operand's tokens are appended to the same statement
		// (a.Op("<").Op("-").Id("b")) instead of being added as one nested statement. Only then does jennifer see a
		// binary operator directly followed by a unary one among the items of one statement (`a < -b` must not
		// become `a <- b`, `a & ^b` not `a &^ b`, `a - -b` not `a --b`).
		lhs := t.expr(x.X).Op(x.Op.String())
		y := t.expr(x.Y)
		if y != nil && (uint32(x.OpPos)*2654435761>>16)&1 == 0 {
			t.hit("binary.flat")
			return lhs.Add(*y...)
		}
		return lhs.Add(y)
	case *ast.KeyValueExpr:
		t.hit("kv")
		return t.expr(x.Key).Op(":").Add(t.expr(x.Value))
	case *ast.ArrayType:
		if x.Len == nil {
			t.hit("slicetype")
			return jen.Index().Add(t.expr(x.Elt))
		}
		t.hit("arraytype")
		return jen.Index(t.expr(x.Len)).Add(t.expr(x.Elt))
	case *ast.StructType:
		var fields []jen.Code
		for _, f := range x.Fields.List {
			fields = append(fields, t.field(f, true)...)
		}
		t.hit("struct")
		return t.L(nil, "Struct", t.inj(t.cmt(fields)))
	case *ast.FuncType:
		t.hit("functype")
		return t.funcType(jen.Func(), x)
	case *ast.InterfaceType:
		var ms []jen.Code
		for _, f := range x.Methods.List {
			if len(f.Names) == 1 {
				if ft, ok := f.Type.(*ast.FuncType); ok {
					ms = append(ms, t.funcType(jen.Id(f.Names[0].Name), ft))
					continue
				}
			}
			if len(f.Names) != 0 {
				skip("weird interface field")
			}
			ms = append(ms, t.expr(f.Type))
		}
		t.hit("interface")
		return t.L(nil, "Interface", t.inj(t.cmt(ms)))
	case *ast.MapType:
		t.hit("map")
		return jen.Map(t.expr(x.Key)).Add(t.expr(x.Value))
	case *ast.ChanType:
		t.hit("chan")
		switch x.Dir {
		case ast.SEND:
			return jen.Chan().Op("<-").Add(t.expr(x.Value))
		case ast.RECV:
			return jen.Op("<-").Chan().Add(t.expr(x.Value))
		default:
			return jen.Chan().Add(t.expr(x.Value))
		}
	}
	skip(fmt.Sprintf("unhandled expr %T", e))
	return nil
}

func (t *Tr) stmts(ss []ast.Stmt) []jen.Code {
	var out []jen.Code
	for _, s := range ss {
		out = append(out, t.stmt(s)...)
	}
	return out
}

func (t *Tr) one(s ast.Stmt) *jen.Statement {
	items := t.stmt(s)
	if len(items) != 1 {
		skip("expected exactly one item for simple stmt")
	}
	return items[0].(*jen.Statement)
}

func (t *Tr) clauses(list []ast.Stmt) []jen.Code {
	var out []jen.Code
	for _, c := range list {
		switch cc := c.(type) {
		case *ast.CaseClause:
			if cc.List == nil {
				t.hit("default")
				out = append(out, t.L(jen.Default(), "Block", t.inj(t.cmt(t.stmts(cc.Body)))))
			} else {
				t.hit("case")
				out = append(out, t.L(t.L(nil, "Case", t.inj(t.exprs(cc.List))), "Block", t.inj(t.cmt(t.stmts(cc.Body)))))
			}
		case *ast.CommClause:
			if cc.Comm == nil {
				t.hit("default")
				out = append(out, t.L(jen.Default(), "Block", t.inj(t.cmt(t.stmts(cc.Body)))))
			} else {
				t.hit("commcase")
				out = append(out, t.L(t.L(nil, "Case", []jen.Code{t.one(cc.Comm)}), "Block", t.inj(t.cmt(t.stmts(cc.Body)))))
			}
		default:
			skip("weird clause")
		}
	}
	return out
}

func (t *Tr) ifStmt(x *ast.IfStmt) *jen.Statement {
	var conds []jen.Code
	if x.Init != nil {
		conds = append(conds, t.one(x.Init))
	}
	conds = append(conds, t.expr(x.Cond))
	s := t.L(t.L(nil, "If", t.inj(conds)), "Block", t.inj(t.cmt(t.stmts(x.Body.List))))
	switch el := x.Else.(type) {
	case nil:
	case *ast.BlockStmt:
		s = t.L(s.Else(), "Block", t.inj(t.cmt(t.stmts(el.List))))
	case *ast.IfStmt:
		s.Else().Add(t.ifStmt(el))
	default:
		skip("weird else")
	}
	return s
}

func (t *Tr) stmt(s ast.Stmt) []jen.Code {
	one := func(c *jen.Statement) []jen.Code { return []jen.Code{c} }
	switch x := s.(type) {
	case *ast.BadStmt:
		skip("bad stmt")
	case *ast.DeclStmt:
		t.hit("declstmt")
		return one(t.genDecl(x.Decl.(*ast.GenDecl)))
	case *ast.EmptyStmt:
		t.hit("emptystmt")
		return nil
	case *ast.LabeledStmt:
		t.hit("label")
		if es, ok := x.Stmt.(*ast.EmptyStmt); ok {
			if es.Implicit {
				return one(jen.Id(x.Label.Name).Op(":"))
			}
			return one(jen.Id(x.Label.Name).Op(":").Op(";"))
		}
		return append(one(jen.Id(x.Label.Name).Op(":")), t.stmt(x.Stmt)...)
	case *ast.ExprStmt:
		t.hit("exprstmt")
		return one(t.expr(x.X))
	case *ast.SendStmt:
		t.hit("send")
		return one(t.expr(x.Chan).Op("<-").Add(t.expr(x.Value)))
	case *ast.IncDecStmt:
		t.hit("incdec")
		return one(t.expr(x.X).Op(x.Tok.String()))
	case *ast.AssignStmt:
		t.hit("assign")
		return one(t.listOrOne(x.Lhs).Op(x.Tok.String()).Add(t.listOrOne(x.Rhs)))
	case *ast.GoStmt:
		t.hit("go")
		return one(jen.Go().Add(t.expr(x.Call)))
	case *ast.DeferStmt:
		t.hit("defer")
		return one(jen.Defer().Add(t.expr(x.Call)))
	case *ast.ReturnStmt:
		t.hit("return")
		return one(t.L(nil, "Return", t.inj(t.exprs(x.Results))))
	case *ast.BranchStmt:
		t.hit("branch")
		var b *jen.Statement
		switch x.Tok {
		case token.BREAK:
			b = jen.Break()
		case token.CONTINUE:
			b = jen.Continue()
		case token.GOTO:
			b = jen.Goto()
		case token.FALLTHROUGH:
			b = jen.Fallthrough()
		}
		if x.Label != nil {
			b.Id(x.Label.Name)
		}
		return one(b)
	case *ast.BlockStmt:
		t.hit("block")
		return one(t.L(nil, "Block", t.inj(t.cmt(t.stmts(x.List)))))
	case *ast.IfStmt:
		t.hit("if")
		return one(t.ifStmt(x))
	case *ast.SwitchStmt:
		t.hit("switch")
		var conds []jen.Code
		if x.Init != nil {
			conds = append(conds, t.one(x.Init))
			if x.Tag == nil {
				conds = append(conds, jen.Empty())
			}
		}
		if x.Tag != nil {
			conds = append(conds, t.expr(x.Tag))
		}
		return one(t.L(t.L(nil, "Switch", t.inj(conds)), "Block", t.inj(t.cmt2(t.clauses(x.Body.List), false))))
	case *ast.TypeSwitchStmt:
		t.hit("typeswitch")
		var conds []jen.Code
		if x.Init != nil {
			conds = append(conds, t.one(x.Init))
		}
		conds = append(conds, t.one(x.Assign))
		return one(t.L(t.L(nil, "Switch", t.inj(conds)), "Block", t.inj(t.cmt2(t.clauses(x.Body.List), false))))
	case *ast.SelectStmt:
		t.hit("select")
		return one(t.L(jen.Select(), "Block", t.inj(t.cmt2(t.clauses(x.Body.List), false))))
	case *ast.ForStmt:
		t.hit("for")
		var conds []jen.Code
		if x.Init == nil && x.Post == nil {
			if x.Cond != nil {
				conds = append(conds, t.expr(x.Cond))
			}
		} else {
			opt := func(c *jen.Statement, ok bool) jen.Code {
				if !ok {
					return jen.Empty()
				}
				return c
			}
			var i, c, p *jen.Statement
			if x.Init != nil {
				i = t.one(x.Init)
			}
			if x.Cond != nil {
				c = t.expr(x.Cond)
			}
			if x.Post != nil {
				p = t.one(x.Post)
			}
			conds = []jen.Code{opt(i, i != nil), opt(c, c != nil), opt(p, p != nil)}
		}
		return one(t.L(t.L(nil, "For", t.inj(conds)), "Block", t.inj(t.cmt(t.stmts(x.Body.List)))))
	case *ast.RangeStmt:
		t.hit("range")
		var hdr *jen.Statement
		if x.Key == nil {
			hdr = jen.Range().Add(t.expr(x.X))
		} else {
			var lhs *jen.Statement
			if x.Value == nil {
				lhs = t.expr(x.Key)
			} else {
				lhs = t.L(nil, "List", []jen.Code{t.expr(x.Key), t.expr(x.Value)})
			}
			hdr = lhs.Op(x.Tok.String()).Range().Add(t.expr(x.X))
		}
		return one(t.L(t.L(nil, "For", []jen.Code{hdr}), "Block", t.inj(t.cmt(t.stmts(x.Body.List)))))
	}
	skip(fmt.Sprintf("unhandled stmt %T", s))
	return nil
}

func (t *Tr) spec(sp ast.Spec) *jen.Statement {
	switch x := sp.(type) {
	case *ast.ValueSpec:
		var s *jen.Statement
		if len(x.Names) == 1 {
			s = jen.Id(x.Names[0].Name)
		} else {
			var ids []jen.Code
			for _, n := range x.Names {
				ids = append(ids, jen.Id(n.Name))
			}
			s = t.L(nil, "List", t.inj(ids))
		}
		if x.Type != nil {
			s.Add(t.expr(x.Type))
		}
		if len(x.Values) > 0 {
			s.Op("=").Add(t.listOrOne(x.Values))
		}
		t.hit("valuespec")
		return s
	case *ast.TypeSpec:
		s := jen.Id(x.Name.Name)
		if x.TypeParams != nil {
			tp := t.fieldList(x.TypeParams)
			if l := x.TypeParams.List; len(l) == 1 && len(l[0].Names) == 1 && combinesWithName(l[0].Type) {
				// [P *T,] needs its trailing comma, or it parses as an array length
				t.hit("types.trailingcomma")
				tp = append(tp, jen.Empty())
			}
			s = t.L(s, "Types", tp)
		}
		if x.Assign.IsValid() {
			s.Op("=")
		}
		t.hit("typespec")
		return s.Add(t.expr(x.Type))
	}
	skip("unhandled spec")
	return nil
}

func (t *Tr) genDecl(d *ast.GenDecl) *jen.Statement {
	var s *jen.Statement
	switch d.Tok {
	case token.CONST:
		s = jen.Const()
	case token.VAR:
		s = jen.Var()
	case token.TYPE:
		s = jen.Type()
	default:
		skip("gendecl tok")
	}
	if d.Lparen.IsValid() {
		var specs []jen.Code
		for _, sp := range d.Specs {
			specs = append(specs, t.spec(sp))
		}
		t.hit("defs")
		return t.L(s, "Defs", t.inj(t.cmt(specs)))
	}
	return s.Add(t.spec(d.Specs[0]))
}

func (t *Tr) funcDecl(d *ast.FuncDecl) *jen.Statement {
	s := jen.Func()
	if d.Recv != nil {
		s = t.L(s, "Params", t.inj(t.fieldList(d.Recv)))
	}
	s.Id(d.Name.Name)
	s = t.funcType(s, d.Type)
	if d.Body != nil {
		s = t.L(s, "Block", t.inj(t.cmt(t.stmts(d.Body.List))))
	}
	t.hit("funcdecl")
	return s
}

func combinesWithName(x ast.Expr) bool {
	switch x := x.(type) {
	case *ast.StarExpr:
		return !isTypeElem(x.X)
	case *ast.BinaryExpr:
		return combinesWithName(x.X) && !isTypeElem(x.Y)
	case *ast.ParenExpr:
		return true
	}
	return false
}

func isTypeElem(x ast.Expr) bool {
	switch x := x.(type) {
	case *ast.ArrayType, *ast.StructType, *ast.FuncType, *ast.InterfaceType, *ast.MapType, *ast.ChanType:
		return true
	case *ast.UnaryExpr:
		return x.Op == token.TILDE
	case *ast.BinaryExpr:
		return isTypeElem(x.X) || isTypeElem(x.Y)
	case *ast.ParenExpr:
		return isTypeElem(x.X)
	}
	return false
}
