package a2j

import (
	"fmt"
	"go/format"
	"go/parser"
	"go/token"
	"math/rand"
	"strings"
)

// GenProgram produces a random, syntactically valid Go source file (it need not type-check): all
// statement kinds, the expression grammar, generics, labels before a closing brace, empty case bodies,
// bare returns, odd for headers, three-index slices, constants beyond 64 bits, deep nesting and wide
// lists — the compositions real corpora happen not to contain. Returns "" if the text does not parse.
func GenProgram(seed int64) string {
	g := &pgen{r: rand.New(rand.NewSource(seed))}
	g.maxDepth = 2 + g.r.Intn(7)
	var sb strings.Builder
	sb.WriteString("package gen\n\n")
	imps := []string{"fmt", "os", "strings", "math/rand", "crypto/rand", "x.y/z", "a.b/c-d"}
	g.imports = map[string]bool{}
	cgo := g.r.Intn(8) == 0
	if cgo {
		// a cgo file whose other imports sort before, between and after "C" (digits and upper case sort first)
		sb.WriteString("import (\n")
		for _, i := range g.r.Perm(5)[:1+g.r.Intn(4)] {
			n := []string{"acme", "bee", "cee", "fmt", "os"}[i]
			fmt.Fprintf(&sb, "\t%s %q\n", n, []string{"9fans.net/go/acme", "Bee.example/b", "D.example/cee", "fmt", "os"}[i])
			g.imports[n] = true
		}
		sb.WriteString(")\n\n")
		sb.WriteString([]string{"// #include <stdio.h>\n", "/*\n#include <stdlib.h>\n#cgo LDFLAGS: -lm\n*/\n"}[g.r.Intn(2)])
		sb.WriteString("import \"C\"\n\nvar _c = C.x\n\n")
	} else if g.r.Intn(3) > 0 {
		sb.WriteString("import (\n")
		for _, i := range g.r.Perm(len(imps))[:1+g.r.Intn(4)] {
			p := imps[i]
			switch p {
			case "math/rand":
				sb.WriteString("\t\"math/rand\"\n")
				g.imports["rand"] = true
			case "crypto/rand":
				sb.WriteString("\tcrand \"crypto/rand\"\n")
				g.imports["crand"] = true
			case "x.y/z":
				if g.r.Intn(2) == 0 {
					sb.WriteString("\tz \"x.y/z\"\n") // explicit name equal to the last path element
					g.imports["z"] = true
				} else {
					sb.WriteString("\tzed \"x.y/z\"\n")
					g.imports["zed"] = true
				}
			case "a.b/c-d":
				sb.WriteString("\t_ \"a.b/c-d\"\n")
			default:
				switch g.r.Intn(5) {
				case 4: // a legal non-ASCII import name
					n := []string{"π", "größe", "é", "日本"}[g.r.Intn(4)]
					fmt.Fprintf(&sb, "\t%s %q\n", n, p)
					g.imports[n] = true
				case 0: // explicit name equal to the package's own name
					fmt.Fprintf(&sb, "\t%s %q\n", p, p)
					g.imports[p] = true
				case 1:
					fmt.Fprintf(&sb, "\t%s_ %q\n", p, p)
					g.imports[p+"_"] = true
				default:
					fmt.Fprintf(&sb, "\t%q\n", p)
					g.imports[p] = true
				}
			}
		}
		sb.WriteString(")\n\n")
	}
	// every import must be used through a selector (the translator's domain)
	for n := range map[string]bool{} {
		_ = n
	}
	names := []string{}
	for n := range g.imports {
		names = append(names, n)
	}
	// deterministic order
	for i := 0; i < len(names); i++ {
		for j := i + 1; j < len(names); j++ {
			if names[j] < names[i] {
				names[i], names[j] = names[j], names[i]
			}
		}
	}
	for i, n := range names {
		fmt.Fprintf(&sb, "var _u%d = %s.Sym\n", i, n)
	}
	g.qual = names
	for i, n := 0, 1+g.r.Intn(8); i < n; i++ {
		sb.WriteString(g.decl())
		sb.WriteString("\n\n")
	}
	src := sb.String()
	if _, err := parser.ParseFile(token.NewFileSet(), "gen.go", src, 0); err != nil {
		return ""
	}
	// gofmt itself must keep the program parsable (go/printer drops the parentheses of
	// `switch (G[int]{}) {`, which the parser then rejects): such programs are outside the domain
	fm, err := format.Source([]byte(src))
	if err != nil {
		return ""
	}
	if _, err := parser.ParseFile(token.NewFileSet(), "gen.go", fm, 0); err != nil {
		return ""
	}
	return src
}

type pgen struct {
	r        *rand.Rand
	maxDepth int
	imports  map[string]bool
	qual     []string
	n        int
}

func (g *pgen) id() string {
	g.n++
	return []string{"a", "b", "c", "x", "y", "z", "foo", "bar", "T", "v"}[g.r.Intn(10)] + fmt.Sprint(g.r.Intn(4))
}

func (g *pgen) list(n int, f func() string, sep string) string {
	var parts []string
	for i := 0; i < n; i++ {
		parts = append(parts, f())
	}
	return strings.Join(parts, sep)
}

func (g *pgen) arity() int {
	switch g.r.Intn(12) {
	case 0:
		return 0
	case 1:
		return 5 + g.r.Intn(36)
	default:
		return 1 + g.r.Intn(4)
	}
}

func (g *pgen) typ(d int) string {
	if d <= 0 {
		return []string{"int", "string", "T0", "error", "any", "float64", "byte", "rune", "bool", "uintptr"}[g.r.Intn(10)]
	}
	switch g.r.Intn(16) {
	case 0:
		return "*" + g.typ(d-1)
	case 1:
		return "[]" + g.typ(d-1)
	case 2:
		return fmt.Sprintf("[%d]%s", g.r.Intn(9), g.typ(d-1))
	case 3:
		return "map[" + g.typ(0) + "]" + g.typ(d-1)
	case 4:
		return []string{"chan ", "<-chan ", "chan<- "}[g.r.Intn(3)] + g.typ(d-1)
	case 5:
		return "func(" + g.list(g.r.Intn(3), func() string { return g.typ(d - 1) }, ", ") + ") " + g.typ(d-1)
	case 6:
		return "struct{" + g.list(g.r.Intn(4), func() string { return g.id() + " " + g.typ(d-1) + g.tag() }, "; ") + "}"
	case 7:
		return "interface{" + g.list(g.r.Intn(3), func() string { return "M" + g.id() + "(" + g.typ(0) + ") " + g.typ(0) }, "; ") + "}"
	case 8:
		return "G0[" + g.list(1+g.r.Intn(3), func() string { return g.typ(d - 1) }, ", ") + "]"
	case 9:
		if len(g.qual) > 0 {
			return g.qual[g.r.Intn(len(g.qual))] + ".Type"
		}
		return "int"
	case 10:
		return "[...]" + g.typ(d-1)
	case 11:
		return "func(" + g.id() + ", " + g.id() + " " + g.typ(d-1) + ", " + g.id() + " ..." + g.typ(0) + ") (" + g.id() + " " + g.typ(0) + ", err error)"
	default:
		return g.typ(0)
	}
}

func (g *pgen) tag() string {
	switch g.r.Intn(6) {
	case 4:
		// values with graphic non-ASCII spaces written as escapes, non-ASCII keys and values
		return []string{" `k:\"first\\u3000last\" nb:\"a\\u00a0b\"`", " `é:\"ü\" ключ:\"значение\"`", " `sp:\"a\\u2003b\"`"}[g.r.Intn(3)]
	case 0:
		return " `json:\"a\" xml:\"b\"`"
	case 1:
		return " \"k:\\\"v\\\"\""
	case 2:
		return " `b:\"2\" a:\"1\"`"
	case 3:
		// values may be empty, all of them
		return []string{" `xml:\"\"`", " `a:\"\" json:\"\"`", " `json:\",omitempty\" db:\"\"`", " `db:\"id\" db2:\"row\"`", " `json:\"a\" json-api:\"b\" json.x:\"c\"`", " `k:\"first\\u3000last\" nb:\"a\\u00a0b\"`", " `é:\"ü\" ключ:\"значение\"`", ""}[g.r.Intn(8)]
	}
	return ""
}

func (g *pgen) lit() string {
	switch g.r.Intn(14) {
	case 0:
		return fmt.Sprint(g.r.Intn(1000))
	case 1:
		return "0x" + fmt.Sprintf("%X", g.r.Int63())
	case 2:
		return "123456789012345678901234567890"
	case 3:
		return fmt.Sprintf("%g", g.r.Float64()*1e6)
	case 4:
		return []string{"1e100", "1e-320", "0.1", "1_000.5", "0x1p-2", "1e+06", "100000.0", "5e-324", "1.7976931348623157e308"}[g.r.Intn(9)]
	case 5:
		return []string{"'a'", "'\\n'", "'\\x00'", "'\\''", "'日'", "'\\U0010ffff'", "'\\377'"}[g.r.Intn(7)]
	case 6:
		return []string{`"s"`, "`raw\nline`", `"\x00\xff"`, `"a\"b"`, `""`, "`back\\slash`", `"日本"`, `"tab\t"`}[g.r.Intn(8)]
	case 7:
		return []string{"2i", "1.5i", "0i"}[g.r.Intn(3)]
	case 8:
		return []string{"true", "false", "nil", "iota"}[g.r.Intn(4)]
	case 9:
		return "0b1011"
	case 10:
		return "0o17"
	case 11:
		return []string{"07", "float32(0.1)", "float32(-2.5e-05)", "float32(16777217)", "int8(-128)", "uint16(65535)", "int64(-9223372036854775808)", "uint8(7)", "float32(3.4028235e+38)", "uintptr(9)"}[g.r.Intn(10)]
	default:
		return fmt.Sprint(g.r.Int63())
	}
}

var binops = []string{"+", "-", "*", "/", "%", "&", "|", "^", "<<", ">>", "&^", "&&", "||", "==", "!=", "<", "<=", ">", ">="}

func (g *pgen) expr(d int) string {
	if d <= 0 {
		if g.r.Intn(3) == 0 {
			return g.lit()
		}
		return g.id()
	}
	switch g.r.Intn(24) {
	case 0, 1:
		return g.expr(d-1) + " " + binops[g.r.Intn(len(binops))] + " " + g.expr(d-1)
	case 2:
		return "(" + g.expr(d-1) + ")"
	case 3:
		return []string{"-", "+", "!", "^", "*", "&", "<-"}[g.r.Intn(7)] + g.expr(d-1)
	case 4:
		return g.expr(d-1) + "." + g.id()
	case 5:
		return g.expr(d-1) + "[" + g.expr(d-1) + "]"
	case 6:
		lo, hi, mx := g.expr(0), g.expr(0), g.expr(0)
		switch g.r.Intn(6) {
		case 0:
			return g.expr(d-1) + "[:]"
		case 1:
			return g.expr(d-1) + "[" + lo + ":]"
		case 2:
			return g.expr(d-1) + "[:" + hi + "]"
		case 3:
			return g.expr(d-1) + "[" + lo + ":" + hi + "]"
		case 4:
			return g.expr(d-1) + "[:" + hi + ":" + mx + "]"
		default:
			return g.expr(d-1) + "[" + lo + ":" + hi + ":" + mx + "]"
		}
	case 7:
		return g.expr(d-1) + ".(" + g.typ(1) + ")"
	case 8, 9:
		args := g.list(g.arity(), func() string { return g.expr(d - 1) }, ", ")
		if g.r.Intn(6) == 0 && args != "" {
			args += "..."
		}
		return g.expr(d-1) + "(" + args + ")"
	case 10:
		b := []string{"len", "cap", "new", "panic", "real", "imag", "close", "clear"}[g.r.Intn(8)]
		return b + "(" + g.expr(d-1) + ")"
	case 11:
		b := []string{"append", "min", "max", "make", "print", "println"}[g.r.Intn(6)]
		return b + "(" + g.list(1+g.r.Intn(4), func() string { return g.expr(d - 1) }, ", ") + ")"
	case 12:
		b := []string{"copy", "delete", "complex"}[g.r.Intn(3)]
		return b + "(" + g.expr(d-1) + ", " + g.expr(d-1) + ")"
	case 13:
		return g.typ(1) + "{" + g.list(g.arity(), func() string { return g.expr(d - 1) }, ", ") + "}"
	case 14:
		// keyed literal, keys may repeat
		return g.typ(1) + "{" + g.list(g.r.Intn(5), func() string { return g.expr(0) + ": " + g.expr(d-1) }, ", ") + "}"
	case 15:
		return "func(" + g.id() + " " + g.typ(1) + ") " + g.typ(0) + " " + g.block(d-1)
	case 16:
		if len(g.qual) > 0 {
			return g.qual[g.r.Intn(len(g.qual))] + "." + strings.ToUpper(g.id())
		}
		return g.id()
	case 17:
		return "G0[" + g.typ(0) + ", " + g.typ(1) + "]{}"
	case 18:
		return "[]" + g.typ(0) + "{" + g.list(g.r.Intn(4), func() string { return "{" + g.expr(0) + ", " + g.expr(0) + "}" }, ", ") + "}"
	case 19:
		return "recover()"
	case 20:
		return "struct{}{}"
	default:
		return g.expr(0)
	}
}

func (g *pgen) block(d int) string {
	if d <= 0 {
		return "{}"
	}
	n := g.r.Intn(5)
	if g.r.Intn(10) == 0 {
		n = 0
	}
	s := "{\n" + g.list(n, func() string { return g.stmt(d - 1) }, "\n")
	if g.r.Intn(8) == 0 {
		s += "\nL" + fmt.Sprint(g.r.Intn(9)) + ":" // label before the closing brace
	}
	return s + "\n}"
}

func (g *pgen) simple(d int) string {
	switch g.r.Intn(7) {
	case 0:
		return g.id() + " := " + g.expr(d)
	case 1:
		return g.id() + ", " + g.id() + " = " + g.expr(d) + ", " + g.expr(d)
	case 2:
		return g.id() + "++"
	case 3:
		return g.id() + " " + []string{"+=", "-=", "*=", "<<=", "&^=", "|="}[g.r.Intn(6)] + " " + g.expr(d)
	case 4:
		return g.expr(d) + " <- " + g.expr(d)
	case 5:
		return g.id() + "(" + g.expr(d) + ")"
	default:
		return g.id() + "--"
	}
}

func (g *pgen) stmt(d int) string {
	switch g.r.Intn(26) {
	case 0, 1, 2:
		return g.simple(d)
	case 3:
		s := "if " + g.expr(d) + " " + g.block(d)
		for g.r.Intn(3) == 0 {
			s += " else if " + g.id() + " := " + g.expr(0) + "; " + g.expr(0) + " " + g.block(d)
		}
		if g.r.Intn(2) == 0 {
			s += " else " + g.block(d)
		}
		return s
	case 4:
		return "if " + g.simple(0) + "; " + g.expr(d) + " " + g.block(d)
	case 5:
		switch g.r.Intn(7) {
		case 0:
			return "for " + g.block(d)
		case 1:
			return "for " + g.expr(d) + " " + g.block(d)
		case 2:
			return "for " + g.simple(0) + "; " + g.expr(0) + "; " + g.simple(0) + " " + g.block(d)
		case 3:
			return "for ; " + g.expr(0) + "; " + g.block(d)
		case 4:
			return "for " + g.simple(0) + "; ; " + g.block(d)
		case 5:
			return "for ; ; " + g.simple(0) + " " + g.block(d)
		default:
			return "for ; ; " + g.block(d)
		}
	case 6:
		switch g.r.Intn(5) {
		case 0:
			return "for range " + g.expr(d) + " " + g.block(d)
		case 1:
			return "for " + g.id() + " := range " + g.expr(d) + " " + g.block(d)
		case 2:
			return "for " + g.id() + ", " + g.id() + " := range " + g.expr(d) + " " + g.block(d)
		case 3:
			return "for " + g.id() + ", _ = range " + g.expr(d) + " " + g.block(d)
		default:
			return "for " + g.id() + " = range 10 " + g.block(d)
		}
	case 7:
		hdr := []string{"", g.expr(d), g.simple(0) + "; " + g.expr(0), g.simple(0) + ";"}[g.r.Intn(4)]
		s := "switch " + hdr + " {\n"
		for i, n := 0, g.r.Intn(4); i < n; i++ {
			s += "case " + g.list(1+g.r.Intn(3), func() string { return g.expr(0) }, ", ") + ":\n"
			if g.r.Intn(3) > 0 {
				s += g.list(g.r.Intn(3), func() string { return g.stmt(d - 1) }, "\n") + "\n"
				if g.r.Intn(6) == 0 {
					s += "fallthrough\n"
				}
			}
		}
		if g.r.Intn(2) == 0 {
			s += "default:\n"
			if g.r.Intn(2) == 0 {
				s += g.stmt(d-1) + "\n"
			}
		}
		return s + "}"
	case 8:
		hdr := []string{g.id() + " := " + g.id() + ".(type)", g.id() + ".(type)", g.simple(0) + "; " + g.id() + " := " + g.id() + ".(type)"}[g.r.Intn(3)]
		s := "switch " + hdr + " {\n"
		for i, n := 0, g.r.Intn(4); i < n; i++ {
			s += "case " + g.list(1+g.r.Intn(3), func() string { return g.typ(1) }, ", ") + ":\n" + g.list(g.r.Intn(2), func() string { return g.stmt(d - 1) }, "\n") + "\n"
		}
		if g.r.Intn(2) == 0 {
			s += "default:\n"
		}
		return s + "}"
	case 9:
		s := "select {\n"
		for i, n := 0, g.r.Intn(4); i < n; i++ {
			comm := []string{"<-" + g.id(), g.id() + " := <-" + g.id(), g.id() + " <- " + g.expr(0), g.id() + ", " + g.id() + " = <-" + g.id()}[g.r.Intn(4)]
			s += "case " + comm + ":\n" + g.list(g.r.Intn(2), func() string { return g.stmt(d - 1) }, "\n") + "\n"
		}
		if g.r.Intn(2) == 0 {
			s += "default:\n"
		}
		return s + "}"
	case 10:
		switch g.r.Intn(4) {
		case 0:
			return "return"
		case 1:
			return "return " + g.expr(d)
		default:
			return "return " + g.list(g.arity(), func() string { return g.expr(d - 1) }, ", ")
		}
	case 11:
		return []string{"go ", "defer "}[g.r.Intn(2)] + g.id() + "(" + g.expr(d) + ")"
	case 12:
		return "defer func() " + g.block(d) + "()"
	case 13:
		return []string{"break", "continue", "break L1", "continue L2", "goto L3"}[g.r.Intn(5)]
	case 14:
		return "L" + fmt.Sprint(g.r.Intn(9)) + ":\n" + g.stmt(d-1)
	case 15:
		return g.block(d)
	case 16:
		return "var " + g.id() + " " + g.typ(2)
	case 17:
		return "var " + g.id() + ", " + g.id() + " = " + g.expr(d) + ", " + g.expr(d)
	case 18:
		return "const " + g.id() + " = " + g.lit()
	case 19:
		return "type " + g.id() + " " + g.typ(2)
	case 20:
		return "var (\n" + g.list(g.r.Intn(3), func() string { return g.id() + " = " + g.expr(d-1) }, "\n") + "\n)"
	case 21:
		return g.id() + ", " + g.id() + " := " + g.expr(d) + ", " + g.expr(d)
	case 22:
		return ";"
	default:
		return g.simple(d)
	}
}

func (g *pgen) decl() string {
	d := g.maxDepth
	switch g.r.Intn(12) {
	case 0:
		return "const " + g.id() + " = " + g.lit()
	case 1:
		return "const (\n" + g.list(g.arity(), func() string { return g.id() + " = " + g.lit() }, "\n") + "\n)"
	case 2:
		return "var " + g.id() + " " + g.typ(2) + " = " + g.expr(d)
	case 3:
		return "var (\n" + g.list(g.arity(), func() string { return g.id() + ", " + g.id() + " " + g.typ(1) }, "\n") + "\n)"
	case 4:
		return "type " + g.id() + " " + g.typ(3)
	case 5:
		return "type (\n" + g.list(1+g.r.Intn(3), func() string { return g.id() + " " + g.typ(2) }, "\n") + "\n)"
	case 6:
		tp := []string{"[T any]", "[K comparable, V any]", "[T ~int | ~string]", "[P *T0,]", "[T interface{ ~[]E }, E any]", "[A, B any]"}[g.r.Intn(6)]
		return "type G" + g.id() + tp + " " + g.typ(2)
	case 7:
		return "type " + g.id() + " = " + g.typ(2)
	case 8:
		return "func (r *" + g.id() + ") M" + g.id() + "(" + g.list(g.r.Intn(4), func() string { return g.id() + " " + g.typ(1) }, ", ") + ") " + g.block(d)
	case 9:
		tp := []string{"[T any]", "[K comparable, V any]", "[T interface{ M() }]"}[g.r.Intn(3)]
		return "func F" + g.id() + tp + "(" + g.id() + " T) (T, error) " + g.block(d)
	case 10:
		return "func f" + g.id() + "()" // no body
	default:
		res := []string{"", g.typ(1), "(" + g.typ(0) + ", " + g.typ(0) + ")", "(" + g.id() + " " + g.typ(0) + ")"}[g.r.Intn(4)]
		return "func f" + g.id() + "(" + g.list(g.arity()%6, func() string { return g.id() + " " + g.typ(1) }, ", ") + ") " + res + " " + g.block(d)
	}
}
