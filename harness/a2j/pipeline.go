package a2j

import (
	"bytes"
	"fmt"
	"go/ast"
	"go/parser"
	"go/scanner"
	"go/token"
	"os"
	"path/filepath"
	"runtime"
	"sort"
	"strconv"
	"strings"
	"sync"

	"github.com/dave/jennifer/jen"

	"verifharness/oracle"
)

var pkgNameCache sync.Map

// coreStd lists long-standing standard packages for which the translator may leave the name to jennifer's
// own table of standard library names instead of giving an ImportName hint.
var coreStd = map[string]bool{}

func init() {
	for _, p := range strings.Fields("bufio bytes context errors flag fmt io io/ioutil log math math/rand math/big net net/http net/url os os/exec path path/filepath reflect regexp runtime sort strconv strings sync sync/atomic testing text/template html/template time unicode unicode/utf8 encoding/json encoding/binary go/ast go/token go/parser crypto/rand crypto/sha256 container/list") {
		coreStd[p] = true
	}
}

// PkgNameOf resolves the package name of an import path by reading package clauses under roots.
func PkgNameOf(roots []string, path string) string {
	if v, ok := pkgNameCache.Load(path); ok {
		return v.(string)
	}
	name := ""
	for _, r := range roots {
		names := oracle.PackageNamesInDir(filepath.Join(r, path))
		if len(names) == 1 {
			name = names[0]
			break
		}
	}
	pkgNameCache.Store(path, name)
	return name
}

// Roots returns the directories in which import paths are looked up.
func Roots() []string {
	g := oracle.GorootSrc()
	return []string{g, filepath.Join(g, "vendor"), filepath.Join(g, "cmd", "vendor"), filepath.Join(g, "cmd")}
}

type Imp struct{ Name, Path string }

// Built is a translated program: a fresh jen.File plus what the oracle needs to judge its rendering.
type Built struct {
	File      *jen.File
	Tr        *Tr
	Orig      *ast.File
	OrigDecls []ast.Decl // without import declarations
	Want      []Imp
	Items     []jen.Code // the top-level items added to the File, in order
	Skip      string // non-empty: the input is outside the translator's domain
	Panic     string // panic inside jennifer while building
}

// Build parses src and transcribes it into a jen.File. seed drives all knob streams.
func Build(filename string, src []byte, roots []string, seed int64, k Knobs) (b *Built) {
	b = &Built{}
	defer func() {
		if r := recover(); r != nil {
			if s, ok := r.(SkipErr); ok {
				b.Skip = s.Why
				return
			}
			buf := make([]byte, 8192)
			n := runtime.Stack(buf, false)
			b.Panic = fmt.Sprintf("%v\n%s", r, buf[:n])
		}
	}()
	fset := token.NewFileSet()
	orig, err := parser.ParseFile(fset, filename, src, 0)
	if err != nil {
		b.Skip = "parse"
		return
	}
	b.Orig = orig
	t := NewTr(seed, k)
	b.Tr = t
	f := jen.NewFile(orig.Name.Name)
	b.File = f
	seenPath := map[string]bool{}
	usedX := map[string]bool{}
	ast.Inspect(orig, func(n ast.Node) bool {
		if se, ok := n.(*ast.SelectorExpr); ok {
			if id, ok := se.X.(*ast.Ident); ok && id.Obj == nil {
				usedX[id.Name] = true
			}
		}
		return true
	})
	for _, d := range orig.Decls {
		gd, ok := d.(*ast.GenDecl)
		if !ok || gd.Tok != token.IMPORT {
			continue
		}
		for _, sp := range gd.Specs {
			is := sp.(*ast.ImportSpec)
			p, _ := strconv.Unquote(is.Path.Value)
			if seenPath[p] {
				skip("duplicate import path")
			}
			seenPath[p] = true
			name := ""
			if is.Name != nil {
				name = is.Name.Name
			}
			b.Want = append(b.Want, Imp{name, p})
			switch {
			case name == "_":
				f.Anon(p)
			case name == ".":
				skip("dot import")
			case p == "C":
				if name != "" {
					skip("aliased C")
				}
				if usedX["C"] {
					t.imports["C"] = "C"
				}
				// the preamble is the doc comment of the import "C" declaration (the main parse drops comments)
				if cf, err := parser.ParseFile(token.NewFileSet(), filename, src, parser.ImportsOnly|parser.ParseComments); err == nil {
					for _, cd := range cf.Decls {
						if cg, ok := cd.(*ast.GenDecl); ok && cg.Tok == token.IMPORT && cg.Doc != nil && len(cg.Specs) == 1 && cg.Specs[0].(*ast.ImportSpec).Path.Value == `"C"` {
							// every comment of the group verbatim: text that starts with // or /* is rendered as it is
							for _, cm := range cg.Doc.List {
								f.CgoPreamble(cm.Text)
								t.hit("cgo.preamble")
							}
						}
					}
				}
				if !usedX["C"] {
					f.Anon("C")
				}
			case name != "":
				if !oracle.LegalImportName(name) || name == "init" || name == "err" || name == "C" {
					skip("import alias is a name jennifer must replace (C05)")
				}
				f.ImportAlias(p, name)
				t.imports[name] = p
			default:
				real := PkgNameOf(roots, p)
				if real == "" {
					last := p[strings.LastIndex(p, "/")+1:]
					if usedX[last] {
						real = last
					} else {
						skip("cannot resolve package name")
					}
				}
				if !oracle.LegalImportName(real) || real == "init" || real == "err" || real == "C" {
					skip("package name is a name jennifer must replace (C05)")
				}
				if coreStd[p] && oracle.StdName(p) != "" && t.coin() {
					// leave it to jennifer's own table of standard library names
				} else {
					f.ImportName(p, real)
				}
				t.imports[real] = p
			}
		}
	}
	{
		seen := map[string]bool{}
		for _, w := range b.Want {
			n := w.Name
			if n == "" {
				for k, v := range t.imports {
					if v == w.Path {
						n = k
					}
				}
			}
			if n == "_" || n == "" {
				continue
			}
			if seen[n] {
				skip("two imports under one name")
			}
			seen[n] = true
		}
	}
	for n := range t.imports {
		if !usedX[n] {
			skip("import not referenced via selector")
		}
	}
	var fileItems []jen.Code
	for _, d := range orig.Decls {
		switch x := d.(type) {
		case *ast.GenDecl:
			if x.Tok == token.IMPORT {
				continue
			}
			fileItems = append(fileItems, t.genDecl(x))
		case *ast.FuncDecl:
			fileItems = append(fileItems, t.funcDecl(x))
		default:
			skip("bad decl")
		}
		b.OrigDecls = append(b.OrigDecls, d)
	}
	fileItems = t.damage("File", fileItems)
	for _, it := range t.inj(t.cmt(fileItems)) {
		f.Add(it)
		b.Items = append(b.Items, it)
	}
	t.Finish()
	return b
}

// Render renders the built File, catching panics.
func (b *Built) Render() (out []byte, errText, panicText string) {
	buf := &bytes.Buffer{}
	var err error
	func() {
		defer func() {
			if r := recover(); r != nil {
				st := make([]byte, 8192)
				n := runtime.Stack(st, false)
				where := ""
				for _, l := range strings.Split(string(st[:n]), "\n") {
					if strings.Contains(l, "/jen/") && strings.Contains(l, ".go:") {
						where = strings.TrimSpace(l)
						break
					}
				}
				panicText = fmt.Sprintf("%v @ %s", r, where)
			}
		}()
		err = b.File.Render(buf)
	}()
	if panicText != "" {
		return nil, "", panicText
	}
	if err != nil {
		msg := err.Error()
		if len(msg) > 800 {
			msg = msg[:800]
		}
		return nil, msg, ""
	}
	return buf.Bytes(), "", ""
}

// Compare judges rendered output against the source program (O1).
func (b *Built) Compare(out []byte) string {
	res, err := parser.ParseFile(token.NewFileSet(), "out.go", out, 0)
	if err != nil {
		return "reparse: " + err.Error()
	}
	if res.Name.Name != b.Orig.Name.Name {
		return fmt.Sprintf("package name %q, want %q", res.Name.Name, b.Orig.Name.Name)
	}
	var got []Imp
	var outDecls []ast.Decl
	for _, d := range res.Decls {
		if gd, ok := d.(*ast.GenDecl); ok && gd.Tok == token.IMPORT {
			for _, sp := range gd.Specs {
				is := sp.(*ast.ImportSpec)
				p, _ := strconv.Unquote(is.Path.Value)
				name := ""
				if is.Name != nil {
					name = is.Name.Name
				}
				got = append(got, Imp{name, p})
			}
			continue
		}
		outDecls = append(outDecls, d)
	}
	key := func(l []Imp) string {
		var s []string
		for _, i := range l {
			s = append(s, i.Name+" "+i.Path)
		}
		sort.Strings(s)
		return strings.Join(s, ";")
	}
	if key(b.Want) != key(got) {
		return "imports: want [" + key(b.Want) + "] got [" + key(got) + "]"
	}
	if len(b.OrigDecls) != len(outDecls) {
		return fmt.Sprintf("declaration count %d, want %d", len(outDecls), len(b.OrigDecls))
	}
	for i := range b.OrigDecls {
		if ok, msg := oracle.DeclsEqual(b.OrigDecls[i], outDecls[i]); !ok {
			return fmt.Sprintf("declaration %d (%s): %s", i, declName(b.OrigDecls[i]), msg)
		}
	}
	return ""
}

func declName(d ast.Decl) string {
	switch x := d.(type) {
	case *ast.FuncDecl:
		return "func " + x.Name.Name
	case *ast.GenDecl:
		if len(x.Specs) > 0 {
			switch s := x.Specs[0].(type) {
			case *ast.TypeSpec:
				return "type " + s.Name.Name
			case *ast.ValueSpec:
				if len(s.Names) > 0 {
					return x.Tok.String() + " " + s.Names[0].Name
				}
			}
		}
		return x.Tok.String()
	}
	return "?"
}

// CodeTokens returns the non-comment token stream of src.
func CodeTokens(src []byte) []string {
	var sc scanner.Scanner
	fs := token.NewFileSet()
	sc.Init(fs.AddFile("x.go", fs.Base(), len(src)), src, nil, scanner.ScanComments)
	var out []string
	for {
		_, tok, lit := sc.Scan()
		if tok == token.EOF {
			break
		}
		if tok == token.COMMENT {
			continue
		}
		if tok == token.SEMICOLON {
			lit = ";"
		}
		out = append(out, tok.String()+" "+lit)
	}
	// a trailing auto-semicolon at EOF depends on a final newline/comment only
	for len(out) > 0 && out[len(out)-1] == "; ;" {
		out = out[:len(out)-1]
	}
	return out
}

// CommentTokens returns the multiset of COMMENT token texts of src.
func CommentTokens(src []byte) map[string]int {
	var sc scanner.Scanner
	fs := token.NewFileSet()
	sc.Init(fs.AddFile("x.go", fs.Base(), len(src)), src, nil, scanner.ScanComments)
	out := map[string]int{}
	for {
		_, tok, lit := sc.Scan()
		if tok == token.EOF {
			break
		}
		if tok == token.COMMENT {
			lit = strings.ReplaceAll(lit, "\r", "") // go/scanner drops carriage returns from comment text itself
			if strings.HasPrefix(lit, "//") {
				// blanks at the end of a line comment are layout (a Statement separates its items by a blank, also
				// before a Line() item), not text
				lit = strings.TrimRight(lit, " \t")
			}
			out[lit]++
		}
	}
	return out
}

// ExpectedComment is the text a Comment(tx) must appear as, by the documented rule.
func ExpectedComment(tx string) string {
	if strings.HasPrefix(tx, "/*") {
		// raw block form: the comment token is the text up to its closing marker (what follows is white space)
		if i := strings.Index(tx, "*/"); i >= 0 {
			return strings.ReplaceAll(tx[:i+2], "\r", "")
		}
	}
	if strings.HasPrefix(tx, "//") {
		return strings.TrimRight(strings.ReplaceAll(tx, "\r", ""), " \t") // raw line form
	}
	style := tx
	tx = strings.ReplaceAll(tx, "\r", "") // compared with CommentTokens, which are free of carriage returns
	if strings.Contains(style, "\n") {
		want := "/*\n" + tx
		if !strings.HasSuffix(tx, "\n") {
			want += "\n"
		}
		return want + "*/"
	}
	return strings.TrimRight("// "+tx, " \t")
}

// ListGoFiles walks root (following the symlink at the root itself) and returns all .go files, sorted.
func ListGoFiles(root string) []string {
	if r, err := filepath.EvalSymlinks(root); err == nil {
		root = r
	}
	var files []string
	filepath.Walk(root, func(p string, info os.FileInfo, err error) error {
		if err == nil && !info.IsDir() && strings.HasSuffix(p, ".go") {
			files = append(files, p)
		}
		return nil
	})
	sort.Strings(files)
	return files
}
