//go:build verif

package main

import "github.com/dave/jennifer/jen"

const hooksAvailable = true

func fileState(f *jen.File) (imports, hints map[string][2]string) {
	_, _, imports, hints = jen.VerifFileState(f)
	return
}

func dumpTree(c jen.Code) string { return jen.VerifDump(c) }

// probe wraps inner so that visits are reported; failAt>0 makes the failAt-th render visit fail.
func newProbe(id int, inner jen.Code, onNull func(id int), onRender func(id int) error) jen.Code {
	p := &jen.VerifProbe{ID: id, Inner: inner}
	if onNull != nil {
		p.OnIsNull = func(p *jen.VerifProbe) { onNull(p.ID) }
	}
	if onRender != nil {
		p.OnRender = func(p *jen.VerifProbe) error { return onRender(p.ID) }
	}
	return p
}
