//go:build race

package main

const raceEnabled = true
