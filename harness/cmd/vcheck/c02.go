package main

import (
	"bytes"
	"fmt"
	"go/format"
	"go/parser"
	"go/token"
	"math/rand"
	"reflect"
	"regexp"
	"sort"
	"strings"

	"github.com/dave/jennifer/jen"

	"verifharness/a2j"
	"verifharness/mon"
)

// C02: a successful render is valid Go and exactly gofmt of the raw rendering; invalid compositions are
// errors, never panics. Workloads: random compositions over the whole API (twin builds: formatted and
// NoFormat), and real programs with random damage.

func init() {
	register("C02", "exploration", runC02, replayC02)
}

type c02gen struct {
	r     *rand.Rand
	names []string
	meth  map[string]reflect.Method
	stats map[string]int
}

func newC02gen(seed int64) *c02gen {
	g := &c02gen{r: rand.New(rand.NewSource(seed)), meth: map[string]reflect.Method{}, stats: map[string]int{}}
	for n := range pkgFuncs {
		if m, ok := tStmt.MethodByName(n); ok {
			g.meth[n] = m
			g.names = append(g.names, n)
		}
	}
	sort.Strings(g.names)
	return g
}

var c02Strings = []string{"a", "b", "x", "T", "_", "foo", "err", "string", "", "a.b", "1x", "if", "+", "-", "*", "&", ":=", "=", "==", "<-", "...", "!", "|", "~", "{", "}", "(", ")", ";", ":", ",", "&&", "++", ".", "text", "a\nb", "//raw", "/* blk */", "*/", "x */ y", "%d", "0XFF", "0B1010", "0O755", "1E6", "0X1P-2", "0123i", "1_000", "0x_1F"}
var c02Paths = []string{"fmt", "a.b/x", "c.d/x", "my/local", "C", "os", "math/rand", "crypto/rand", "", "x/go", "y/1", "x/İstanbul", "k.io/\u212aelvin/v2", "o.io/\u2126mega", "s/Ma\u1e9ee"}

func (g *c02gen) code(depth int) jen.Code {
	switch g.r.Intn(12) {
	case 0:
		return nil
	case 1:
		return jen.Null()
	default:
		return g.stmt(depth)
	}
}

func (g *c02gen) codes(depth int) []jen.Code {
	n := g.r.Intn(4)
	if g.r.Intn(10) == 0 {
		n = g.r.Intn(9)
	}
	out := make([]jen.Code, n)
	for i := range out {
		out[i] = g.code(depth - 1)
	}
	return out
}

func (g *c02gen) stmt(depth int) *jen.Statement {
	s := jen.Add()
	n := 1 + g.r.Intn(3)
	if depth <= 0 {
		n = 1
	}
	for i := 0; i < n; i++ {
		g.one(s, depth)
	}
	return s
}

func (g *c02gen) one(s *jen.Statement, depth int) {
	if depth <= 0 {
		switch g.r.Intn(6) {
		case 0:
			s.Lit(c14Lits[g.r.Intn(len(c14Lits))])
		case 1:
			s.Op(c02Strings[g.r.Intn(len(c02Strings))])
		case 2:
			s.Qual(c02Paths[g.r.Intn(len(c02Paths))], c02Strings[g.r.Intn(12)])
		default:
			s.Id(c02Strings[g.r.Intn(12)])
		}
		return
	}
	if g.r.Intn(25) == 0 {
		d := jen.Dict{}
		for i, n := 0, g.r.Intn(4); i < n; i++ {
			d[g.stmt(depth-1)] = g.stmt(depth - 1)
		}
		if g.r.Intn(6) == 0 {
			d[g.stmt(depth-1)] = nil // a nil value (and, below, a nil key): the pair renders nothing
		}
		if g.r.Intn(12) == 0 {
			d[nil] = g.stmt(depth - 1)
		}
		s.Values(d)
		g.stats["Values(Dict)"]++
		return
	}
	name := g.names[g.r.Intn(len(g.names))]
	m := g.meth[name]
	mt := m.Type
	args := []reflect.Value{reflect.ValueOf(s)}
	for i := 1; i < mt.NumIn(); i++ {
		pt := mt.In(i)
		variadic := mt.IsVariadic() && i == mt.NumIn()-1
		switch {
		case variadic && pt.Elem() == tCode:
			for _, it := range g.codes(depth) {
				args = append(args, codeValue(it))
			}
		case variadic && pt.Elem() == tIface:
			for j, n := 0, g.r.Intn(3); j < n; j++ {
				args = append(args, reflect.ValueOf([]interface{}{1, "s", 2.5}[g.r.Intn(3)]))
			}
		case pt == tCode:
			args = append(args, codeValue(g.code(depth-1)))
		case pt == tString:
			if name == "Qual" && i == 1 {
				args = append(args, reflect.ValueOf(c02Paths[g.r.Intn(len(c02Paths))]))
			} else {
				args = append(args, reflect.ValueOf(c02Strings[g.r.Intn(len(c02Strings))]))
			}
		case pt == tIface:
			args = append(args, reflect.ValueOf(c14Lits[g.r.Intn(len(c14Lits))]))
		case pt.Kind() == reflect.Int32:
			args = append(args, reflect.ValueOf(rune(g.r.Intn(0x3000))))
		case pt.Kind() == reflect.Uint8:
			args = append(args, reflect.ValueOf(byte(g.r.Intn(256))))
		case pt == tTagMap:
			mm := map[string]string{}
			for j, n := 0, g.r.Intn(3); j < n; j++ {
				key := c02Strings[g.r.Intn(12)]
				if g.r.Intn(3) == 0 {
					// keys that are equal up to case, or prefixes of each other: a family at a time
					fam := [][]string{{"json", "JSON", "Json"}, {"a", "A"}, {"db", "db2", "db-x"}}[g.r.Intn(3)]
					for _, k := range fam {
						mm[k] = c02Strings[g.r.Intn(12)]
					}
					continue
				}
				mm[key] = c02Strings[g.r.Intn(12)] + "\"`\n"[:g.r.Intn(4)]
			}
			args = append(args, reflect.ValueOf(mm))
		case pt == tOptions:
			o := jen.Options{Open: c02Strings[g.r.Intn(len(c02Strings))], Close: c02Strings[g.r.Intn(len(c02Strings))], Separator: c02Strings[g.r.Intn(len(c02Strings))], Multi: g.r.Intn(2) == 0}
			args = append(args, reflect.ValueOf(o))
		case pt == tGroupFunc:
			items := g.codes(depth)
			args = append(args, reflect.ValueOf(func(gr *jen.Group) {
				for _, it := range items {
					gr.Add(it)
				}
			}))
		case pt == tStmtFunc:
			args = append(args, reflect.ValueOf(func(s2 *jen.Statement) { g.one(s2, depth-1) }))
		case pt == tDictFunc:
			k, v := g.stmt(depth-1), g.stmt(depth-1)
			args = append(args, reflect.ValueOf(func(d jen.Dict) { d[k] = v }))
		case pt == tLitFunc:
			v := c14Lits[g.r.Intn(len(c14Lits))]
			args = append(args, reflect.ValueOf(func() interface{} { return v }))
		case pt == tRuneFunc:
			v := rune(g.r.Intn(0x3000))
			args = append(args, reflect.ValueOf(func() rune { return v }))
		case pt == tByteFunc:
			v := byte(g.r.Intn(256))
			args = append(args, reflect.ValueOf(func() byte { return v }))
		default:
			g.stats["unknown-parameter-type:"+name]++
			return
		}
	}
	g.stats["construct."+name]++
	m.Func.Call(args)
}

type c02Built struct {
	f      *jen.File
	frags  []*jen.Statement
	groups []*jen.Group
	desc   string
	stats  map[string]int
}

// c02Build is a pure function of seed: the twin is built by calling it again.
func c02Build(seed int64, grammarBias bool) *c02Built {
	g := newC02gen(seed)
	r := g.r
	var f *jen.File
	var d []string
	switch r.Intn(3) {
	case 0:
		f = jen.NewFile("main")
		d = append(d, "NewFile(main)")
	case 1:
		f = jen.NewFilePath("my/local")
		d = append(d, "NewFilePath(my/local)")
	default:
		f = jen.NewFilePathName("my/local", "p")
		d = append(d, "NewFilePathName(my/local,p)")
	}
	if r.Intn(3) == 0 {
		f.PackagePrefix = "pkg"
		d = append(d, "prefix")
	}
	if r.Intn(4) == 0 {
		p, a := c02Paths[r.Intn(len(c02Paths))], []string{"q", "x", ".", "go", "len"}[r.Intn(5)]
		f.ImportAlias(p, a)
		d = append(d, fmt.Sprintf("ImportAlias(%q,%q)", p, a))
	}
	if r.Intn(4) == 0 {
		p := c02Paths[r.Intn(len(c02Paths))]
		f.ImportName(p, "nm")
		d = append(d, fmt.Sprintf("ImportName(%q,nm)", p))
	}
	if r.Intn(5) == 0 {
		p := c02Paths[r.Intn(len(c02Paths)-3)]
		if p != "" {
			f.Anon(p)
			d = append(d, fmt.Sprintf("Anon(%q)", p))
		}
	}
	if r.Intn(6) == 0 {
		f.CgoPreamble("#include <x.h>")
		d = append(d, "CgoPreamble")
	}
	if r.Intn(5) == 0 {
		for i, n := 0, 1+r.Intn(3); i < n; i++ {
			f.HeaderComment([]string{"hdr", "multi\nline", "*/ x", "", "x := 1"}[r.Intn(5)])
		}
		d = append(d, "HeaderComment(s)")
	}
	if r.Intn(5) == 0 {
		for i, n := 0, 1+r.Intn(3); i < n; i++ {
			f.PackageComment([]string{"pkg doc", "", "a\nb", "Package p\tdoes   things.", "  indented"}[r.Intn(5)])
		}
		d = append(d, "PackageComment(s)")
	}
	if r.Intn(8) == 0 {
		f.CanonicalPath = "can/on\"ical"
		d = append(d, "CanonicalPath")
	}
	b := &c02Built{f: f, stats: g.stats}
	if grammarBias {
		// mostly valid: top-level declarations around random expression trees
		for i, n := 0, 1+r.Intn(3); i < n; i++ {
			var st *jen.Statement
			switch r.Intn(4) {
			case 0:
				st = jen.Var().Id(fmt.Sprintf("v%d", i)).Op("=").Add(g.expr(2 + r.Intn(3)))
			case 1:
				st = jen.Func().Id(fmt.Sprintf("f%d", i)).Params().BlockFunc(func(gr *jen.Group) {
					for j, m := 0, r.Intn(4); j < m; j++ {
						gr.Add(jen.Id("_").Op("=").Add(g.expr(2)))
					}
					if r.Intn(3) == 0 {
						gr.Add(g.stmt(2)) // a random, probably invalid statement
					}
					b.groups = append(b.groups, gr)
				})
			case 2:
				st = jen.Type().Id(fmt.Sprintf("T%d", i)).Struct(jen.Id("A").Int().Tag(map[string]string{"a": "b"}), jen.Id("B").Index().Add(g.expr(1)))
			default:
				st = jen.Const().Defs(jen.Id(fmt.Sprintf("c%d", i)).Op("=").Lit(c14Lits[r.Intn(len(c14Lits))]))
			}
			b.frags = append(b.frags, st)
			f.Add(st)
		}
		d = append(d, "grammar-biased")
	} else {
		for i, n := 0, 1+r.Intn(3); i < n; i++ {
			st := g.stmt(1 + r.Intn(4))
			b.frags = append(b.frags, st)
			f.Add(st)
		}
		jen.BlockFunc(func(gr *jen.Group) {
			gr.Add(g.stmt(2))
			b.groups = append(b.groups, gr)
		})
	}
	b.desc = strings.Join(d, " ")
	return b
}

// expr builds a (mostly) valid expression tree.
func (g *c02gen) expr(depth int) *jen.Statement {
	r := g.r
	if depth <= 0 {
		switch r.Intn(5) {
		case 4: // a number spelled by hand, not canonically (gofmt rewrites 0XFF to 0xFF, 1E6 to 1e6, 0123i to 123i)
			return jen.Op([]string{"0XFF", "0B1010", "0O755", "1E6", "0X1P-2", "0123i", "0Xabc", "1_0E2"}[r.Intn(8)])
		case 0:
			return jen.Lit(c14Lits[r.Intn(len(c14Lits))])
		case 1:
			return jen.Qual(c02Paths[r.Intn(8)], "Sym")
		default:
			return jen.Id([]string{"a", "b", "x", "foo"}[r.Intn(4)])
		}
	}
	switch r.Intn(12) {
	case 0:
		return g.expr(depth - 1).Op([]string{"+", "-", "*", "==", "&&", "<<"}[r.Intn(6)]).Add(g.expr(depth - 1))
	case 1:
		return g.expr(depth - 1).Call(g.expr(depth-1), nil, g.expr(depth-1))
	case 2:
		return g.expr(depth - 1).Index(g.expr(depth-1), jen.Empty())
	case 3:
		return jen.Parens(g.expr(depth - 1))
	case 4:
		return jen.Index().Int().Values(g.expr(depth-1), g.expr(depth-1))
	case 5:
		return jen.Map(jen.String()).Int().Values(jen.Dict{jen.Lit("k"): g.expr(depth - 1), g.expr(depth - 1): jen.Lit(1)})
	case 6:
		return jen.Func().Params(jen.Id("p").Int()).Int().Block(jen.Return(g.expr(depth - 1)))
	case 7:
		return jen.Len(g.expr(depth - 1))
	case 8:
		return jen.Append(g.expr(depth-1), g.expr(depth-1))
	case 9:
		return g.expr(depth - 1).Dot("F").Assert(jen.Int())
	case 10:
		return jen.Op("&").Id("T").Values(jen.Dict{jen.Id("A"): g.expr(depth - 1)})
	default:
		return g.expr(0)
	}
}

var gotoArtefact = regexp.MustCompile(`(?m)^\s*goto\s*$`)

func parsesAsFragment(src []byte) bool {
	if _, err := parser.ParseFile(token.NewFileSet(), "o.go", "package p\nfunc _() {\n"+string(src)+"\n}", 0); err == nil {
		return true
	}
	_, err := parser.ParseFile(token.NewFileSet(), "o.go", "package p\n"+string(src), 0)
	return err == nil
}

// judgeTwin is the C02 oracle for one File: formatted rendering vs gofmt(raw rendering of the twin).
func judgeTwin(r *mon.Run, c mon.Case, desc string, f1, f2 *jen.File) (valid bool) {
	f1.NoFormat, f2.NoFormat = false, true
	b1, b2 := &bytes.Buffer{}, &bytes.Buffer{}
	var e1, e2 error
	if p, what := mon.Guard(func() { e1 = f1.Render(b1) }); p {
		r.Violate("panic", c, "File.Render panicked: %s\n%s", what, desc)
		return false
	}
	if p, what := mon.Guard(func() { e2 = f2.Render(b2) }); p {
		r.Violate("panic", c, "File.Render (NoFormat twin) panicked: %s\n%s", what, desc)
		return false
	}
	if e2 != nil {
		if e1 == nil {
			r.Violate("twin-error-mismatch", c, "the NoFormat twin fails (%v) but the formatted render succeeds\n%s", e2, desc)
		}
		return false
	}
	want, ferr := format.Source(b2.Bytes())
	switch {
	case e1 == nil && ferr != nil:
		r.Violate("invalid-emitted-as-valid", c, "Render returned nil although gofmt rejects the raw rendering (%v)\n%s\n--- written ---\n%s", ferr, desc, mon.Trunc(b1.String(), 1500))
	case e1 != nil && ferr == nil:
		r.Violate("valid-reported-as-error", c, "Render failed (%s) although gofmt accepts the raw rendering of the twin\n%s\n--- raw ---\n%s", mon.Trunc(e1.Error(), 200), desc, mon.Trunc(b2.String(), 1500))
	case e1 != nil:
		if b1.Len() != 0 {
			r.Violate("wrote-on-error", c, "Render returned an error but wrote %d bytes\n%s", b1.Len(), desc)
		}
	default:
		if !bytes.Equal(want, b1.Bytes()) {
			r.Violate("not-gofmt-of-raw", c, "the formatted rendering differs from gofmt(raw rendering of the twin) at byte %d\n%s\n--- rendered ---\n%s\n--- gofmt(raw) ---\n%s", firstDiff(want, b1.Bytes()), desc, mon.Trunc(b1.String(), 1500), mon.Trunc(string(want), 1500))
		}
		if _, err := parser.ParseFile(token.NewFileSet(), "o.go", b1.Bytes(), 0); err != nil && !gotoArtefact.Match(b1.Bytes()) {
			r.Violate("unparsable-output", c, "Render returned nil but the output does not parse: %v\n%s", err, desc)
		}
		// GoString is Render for tests
		var gs string
		if p, what := mon.Guard(func() { gs = f1.GoString() }); p || gs != b1.String() {
			r.Violate("gostring-differs", c, "File.GoString differs from Render (panic %q)\n%s", what, desc)
		}
		return true
	}
	return false
}

func judgeFragment(r *mon.Run, c mon.Case, desc, kind string, render func(*bytes.Buffer) error) (valid bool) {
	fb := &bytes.Buffer{}
	var err error
	if p, what := mon.Guard(func() { err = render(fb) }); p {
		r.Violate("panic", c, "%s panicked: %s\n%s", kind, what, desc)
		return false
	}
	if err != nil {
		if fb.Len() != 0 {
			r.Violate("wrote-on-error", c, "%s returned an error but wrote %d bytes\n%s", kind, fb.Len(), desc)
		}
		return false
	}
	if gotoArtefact.Match(fb.Bytes()) {
		// `goto;` (no label) is accepted by go/parser, but go/printer prints it as a bare `goto` line, which
		// does not scan as a statement of its own any more: gofmt's output is unparsable through no fault of
		// jennifer's. Such fragments are outside the domain.
		return false
	}
	if !parsesAsFragment(fb.Bytes()) {
		r.Violate("fragment-unparsable", c, "%s returned nil but the bytes parse neither as declarations nor as statements\n%s\n--- written ---\n%s", kind, desc, mon.Trunc(fb.String(), 1200))
		return false
	}
	return true
}

func c02RecipeCase(r *mon.Run, idx int64) {
	seed := mon.DeriveSeed(r.Seed, "C02/recipe", idx)
	bias := idx%3 == 0
	c := mon.Case{Gen: "recipe", Seed: r.Seed, Index: idx}
	var b1, b2 *c02Built
	if p, what := mon.Guard(func() { b1 = c02Build(seed, bias); b2 = c02Build(seed, bias) }); p {
		r.Violate("panic", c, "building a random composition panicked: %s", what)
		return
	}
	desc := fmt.Sprintf("settings: %s; recipe seed %d; structure: %s", b1.desc, seed, mon.Trunc(dumpTree(b1.f), 1500))
	if idx%5 == 0 {
		// A render that ends in one of the two documented panics (unsupported Lit type, Dict next to other
		// items in Values) and is recovered by the caller must not influence what is rendered next. The
		// panicking render itself is outside the domain and is not judged.
		poison(idx)
		desc += "; preceded by a recovered render that hit a documented panic"
		r.Count("recovered_contract_panics_before_a_judged_render", 1)
	}
	valid := judgeTwin(r, c, desc, b1.f, b2.f)
	if valid && idx%4 == 1 {
		// the same File objects again after a change that keeps the length of the source: the second render
		// must be gofmt of the *current* raw rendering, not of the previous one
		for k, cp := range []string{"example.com/v1/shapes", "example.com/v2/shapes"} {
			b1.f.CanonicalPath, b2.f.CanonicalPath = cp, cp
			b2.f.NoFormat = false
			judgeTwin(r, c, desc+fmt.Sprintf("; re-rendered after CanonicalPath=%q (step %d)", cp, k), b1.f, b2.f)
		}
		r.Count("re_rendered_after_same_length_change", 1)
	}
	if idx%2 == 0 {
		// the same two File objects with the roles swapped: the one just rendered raw is now rendered formatted
		// and vice versa (NoFormat is an exported field a caller may flip between renders)
		judgeTwin(r, c, desc+"; roles swapped: the File rendered with NoFormat before is now rendered formatted, and vice versa", b2.f, b1.f)
		r.Count("re_rendered_with_noformat_flipped", 1)
	}
	nfrag := 0
	for i, fr := range b1.frags {
		fr := fr
		if judgeFragment(r, c, desc, fmt.Sprintf("Statement.Render (fragment %d)", i), func(w *bytes.Buffer) error { return fr.Render(w) }) {
			nfrag++
			// GoString is Render for tests: it must not panic when Render succeeds, and must agree with it
			var gs string
			rb := &bytes.Buffer{}
			fr.Render(rb)
			if p, what := mon.Guard(func() { gs = fr.GoString() }); p || gs != rb.String() {
				r.Violate("gostring-differs", c, "Statement.GoString differs from Render (panic %q)\n%s", what, desc)
			}
		}
		f3 := jen.NewFilePathName("my/local", "p")
		judgeFragment(r, c, desc, fmt.Sprintf("Statement.RenderWithFile (fragment %d)", i), func(w *bytes.Buffer) error { return fr.RenderWithFile(w, f3) })
		// a File's NoFormat setting concerns File.Render only: a fragment rendered with such a File is still
		// checked and formatted
		f4 := jen.NewFile("p")
		f4.NoFormat = true
		f4.PackagePrefix = "pk"
		judgeFragment(r, c, desc, fmt.Sprintf("Statement.RenderWithFile(NoFormat File) (fragment %d)", i), func(w *bytes.Buffer) error { return fr.RenderWithFile(w, f4) })
	}
	for i, g := range b1.groups {
		g := g
		judgeFragment(r, c, desc, fmt.Sprintf("Group.Render (group %d)", i), func(w *bytes.Buffer) error { return g.Render(w) })
		f5 := jen.NewFile("p")
		f5.NoFormat = true
		judgeFragment(r, c, desc, fmt.Sprintf("Group.RenderWithFile(NoFormat File) (group %d)", i), func(w *bytes.Buffer) error { return g.RenderWithFile(w, f5) })
	}
	key := "invalid"
	if valid {
		key = "valid"
	}
	if bias {
		r.Count("recipes.grammar_biased."+key, 1)
	} else {
		r.Count("recipes.random."+key, 1)
	}
	r.Count("fragments.valid", int64(nfrag))
	r.Count("fragments.total", int64(len(b1.frags)))
	r.CountMap("", b1.stats)
	r.Eval(fmt.Sprint(seed), len(b1.frags) > 0)
	if r.Verbose {
		fmt.Println(desc)
	}
	if idx < 2 {
		r.Sample(map[string]interface{}{"recipe_seed": seed, "settings": b1.desc, "valid": valid, "structure": mon.Trunc(dumpTree(b1.f), 400)})
	}
}

func c02DamageCase(r *mon.Run, ci corpusItem) {
	name, src := ci.source()
	c := mon.Case{Gen: "damaged-program", Seed: r.Seed, Extra: mon.J(ci)}
	if len(src) == 0 {
		return
	}
	b0 := a2j.Build(name, src, a2j.Roots(), ci.Seed, a2j.Knobs{Forms: true})
	if b0.Skip != "" || b0.Panic != "" || b0.Tr.ListCount == 0 {
		return
	}
	at := 1 + int(uint64(ci.Seed)%uint64(b0.Tr.ListCount))
	kn := a2j.Knobs{Damage: true, Forms: true, DamageAt: at}
	b1 := a2j.Build(name, src, a2j.Roots(), ci.Seed, kn)
	if b1.Skip != "" {
		return
	}
	if b1.Panic != "" {
		r.Violate("panic", c, "building damaged %s panicked: %s", shortPath(name), mon.Trunc(b1.Panic, 600))
		return
	}
	b2 := a2j.Build(name, src, a2j.Roots(), ci.Seed, kn)
	desc := fmt.Sprintf("%s with damage: %s", shortPath(name), b1.Tr.Damaged)
	valid := judgeTwin(r, c, desc, b1.File, b2.File)
	if b1.Tr.Damaged == "" {
		r.Count("damaged_programs.no_list_reached", 1)
	} else if valid {
		r.Count("damaged_programs.still_valid", 1)
	} else {
		r.Count("damaged_programs.invalid", 1)
	}
	r.Eval("damage|"+name+fmt.Sprint(ci.Seed), b1.Tr.Damaged != "")
}

func runC02(r *mon.Run) {
	r.SetRule("(1) random compositions over every construct of the API table (reflection-driven arguments: nested statements, nil/Null, strings incl. stray delimiters and comment markers, all Lit types, tag maps, Options, callbacks) under random File settings (constructor, prefix, alias/name hints incl. dot and reserved, Anon, cgo preamble, header/package comments, canonical path), one third grammar-biased so that valid files are common; twin build: formatted vs gofmt(NoFormat twin), parse, GoString, and again with NoFormat flipped on both Files; every top-level statement and captured Group also through Statement.Render / RenderWithFile / Group.Render. (2) real programs with one damaged list (dropped/duplicated/swapped item, stray delimiter or keyword, unrelated sub-tree). non-trivial = composition with >=1 statement / damaged program; distinct by seed")
	r.Assume("outside the domain and never generated: Lit/LitFunc with an unsupported type, Values holding a Dict next to other items (documented panics); nil *File, nil Dict keys/values, ImportAlias(p, \"_\") (API misuse)")
	c02NegControls(r)
	n := r.Pick(20000, 400000)
	mon.Parallel(n, func(i int) { c02RecipeCase(r, int64(i)) })
	items := corpusList(r, "C02", 350, 100, 1500, 1)
	mon.Parallel(len(items), func(i int) { c02DamageCase(r, items[i]) })
}

func replayC02(r *mon.Run, c mon.Case) {
	if c.Gen == "recipe" {
		c02RecipeCase(r, c.Index)
		return
	}
	var ci corpusItem
	if err := jsonUnmarshal(c.Extra, &ci); err == nil {
		c02DamageCase(r, ci)
	}
}

// poison renders a File / Statement that panics half-way through (documented contract panics) and recovers.
func poison(idx int64) {
	mon.Guard(func() {
		pf := jen.NewFile("leak")
		pf.Var().Id("leakedDecl").Op("=").Lit(1)
		pf.Func().Id("leakedFunc").Params().Block()
		if idx%2 == 0 {
			pf.Var().Id("boom").Op("=").Lit(struct{}{})
		} else {
			pf.Var().Id("boom").Op("=").Id("T").Values(jen.Dict{jen.Id("a"): jen.Id("b")}, jen.Id("c"))
		}
		pf.Render(&bytes.Buffer{})
	})
	mon.Guard(func() {
		jen.Var().Id("leakedStmt").Op("=").Lit(1).Line().Var().Id("boom").Op("=").Lit(struct{}{}).Render(&bytes.Buffer{})
	})
	// renders whose writer fails (at once, half-way, or after having taken everything), formatted and NoFormat: what
	// the writer did not take must not turn up in a later render either
	mon.Guard(func() {
		// which failure comes last varies with idx (the judged render follows the last one directly)
		order := [][2]int{{2, 0}, {1, 0}, {0, 0}, {2, 1}, {1, 1}, {0, 1}}
		for k := range order {
			o := order[(k+int(uint64(idx)%6))%6]
			jen.Var().Id("leakedStmtByFailedWrite").Op("=").Lit(2).Render(&monWriter{failAt: 1, mode: o[0]})
			wf := jen.NewFile("leak")
			wf.NoFormat = o[1] == 1
			wf.Var().Id("leakedByFailedWrite").Op("=").Lit("secretQ")
			wf.Func().Id("leakedFuncByFailedWrite").Params().Block()
			wf.Render(&monWriter{failAt: 1, mode: o[0]})
		}
	})
}

func c02NegControls(r *mon.Run) {
	mk := func() *jen.File {
		f := jen.NewFile("p")
		f.Func().Id("f").Params().Block(jen.Id("x").Op(":=").Lit(1), jen.Return())
		return f
	}
	// a twin that was not built identically must be noticed
	r.NegControl("twin-differs", func() {
		f1, f2 := mk(), mk()
		f2.Var().Id("extra").Int()
		judgeTwin(r, mon.Case{Gen: "negctl"}, "negctl", f1, f2)
	})
	// invalid text accepted as a fragment must be noticed
	r.NegControl("fragment-accepts-garbage", func() {
		judgeFragment(r, mon.Case{Gen: "negctl"}, "negctl", "fake", func(w *bytes.Buffer) error { w.WriteString("x := := 1 }"); return nil })
	})
	r.NegControl("wrote-on-error", func() {
		judgeFragment(r, mon.Case{Gen: "negctl"}, "negctl", "fake", func(w *bytes.Buffer) error { w.WriteString("x"); return fmt.Errorf("boom") })
	})
	r.NegControl("sanity-inverse", func() {
		if judgeTwin(r, mon.Case{Gen: "negctl"}, "negctl", mk(), mk()) {
			r.Violate("negctl", mon.Case{Gen: "negctl"}, "accepted (expected)")
		}
	})
}
