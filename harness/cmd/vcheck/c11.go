package main

import (
	"bytes"
	"fmt"
	"go/ast"
	"go/constant"
	"go/parser"
	"go/token"
	"go/types"
	"math"
	"math/rand"
	"reflect"
	"strings"

	"github.com/dave/jennifer/jen"

	"verifharness/mon"
)

// C11: numeric and boolean literals preserve value and type. Values are rendered in batches
// (`var X<i> = <Lit(v)>`), each batch file is type-checked once with go/types, and the constant value
// and type of every initialiser are compared with v (O4).

func init() {
	register("C11", "exploration", runC11, replayC11)
}

// litProblem judges one initialiser against the value it was built from.
func litProblem(v interface{}, tv types.TypeAndValue, known bool, text string) string {
	if !known {
		return fmt.Sprintf("no type information for %q", text)
	}
	if tv.Value == nil {
		return fmt.Sprintf("%q is not a constant expression", text)
	}
	if rc, ok := v.(runeConst); ok {
		if tv.Value == nil || types.Default(tv.Type).String() != "rune" && types.Default(tv.Type).String() != "int32" {
			return fmt.Sprintf("%q is not a rune constant (type %s)", text, tv.Type)
		}
		if got, exact := constant.Int64Val(tv.Value); !exact || got != int64(rc) {
			return fmt.Sprintf("%q evaluates to %s, want rune %d", text, tv.Value, int(rc))
		}
		if !strings.HasPrefix(text, "'") {
			return fmt.Sprintf("%q is not written as a rune literal", text)
		}
		return ""
	}
	wantType := reflect.TypeOf(v).String()
	gotType := types.Default(tv.Type).String()
	if wantType == "uint8" && gotType == "byte" {
		gotType = "uint8"
	}
	if gotType != wantType {
		return fmt.Sprintf("%q has (default) type %s, want %s", text, gotType, wantType)
	}
	switch reflect.TypeOf(v).Kind() {
	case reflect.Int, reflect.Int8, reflect.Int16, reflect.Int32, reflect.Int64, reflect.Uint, reflect.Uint8, reflect.Uint16, reflect.Uint32, reflect.Uint64, reflect.Uintptr, reflect.Bool:
		// these are exact in the type-checked constant: the rendering of an untyped int/bool or a
		// conversion T(c) keeps the kind, so compare kind and value
	}
	val := tv.Value
	eqF := func(c constant.Value, f float64, bits int) bool {
		c = constant.ToFloat(c)
		if c.Kind() != constant.Float {
			return false
		}
		if bits == 32 {
			g, _ := constant.Float32Val(c)
			return g == float32(f) // ±0 identified: Go constants have no negative zero
		}
		g, _ := constant.Float64Val(c)
		return g == f
	}
	switch x := v.(type) {
	case string:
		if val.Kind() != constant.String || constant.StringVal(val) != x {
			return fmt.Sprintf("%q evaluates to %s, want %q", text, val, x)
		}
	case bool:
		if val.Kind() != constant.Bool || constant.BoolVal(val) != x {
			return fmt.Sprintf("%q evaluates to %s, want %v", text, val, x)
		}
	case int, int8, int16, int32, int64:
		want := constant.MakeInt64(reflect.ValueOf(v).Int())
		if val.Kind() != constant.Int || !constant.Compare(val, token.EQL, want) {
			return fmt.Sprintf("%q evaluates to %s, want %v", text, val, v)
		}
	case uint, uint8, uint16, uint32, uint64, uintptr:
		want := constant.MakeUint64(reflect.ValueOf(v).Uint())
		if val.Kind() != constant.Int || !constant.Compare(val, token.EQL, want) {
			return fmt.Sprintf("%q evaluates to %s, want %v", text, val, v)
		}
	case float64:
		if !eqF(val, x, 64) {
			return fmt.Sprintf("%q evaluates to %s, want float64 %v (%b)", text, val, x, x)
		}
	case float32:
		if !eqF(val, float64(x), 32) {
			return fmt.Sprintf("%q evaluates to %s, want float32 %v", text, val, x)
		}
	case complex128:
		if !eqF(constant.Real(val), real(x), 64) || !eqF(constant.Imag(val), imag(x), 64) {
			return fmt.Sprintf("%q evaluates to %s, want complex128 %v", text, val, x)
		}
	case complex64:
		if !eqF(constant.Real(val), float64(real(x)), 32) || !eqF(constant.Imag(val), float64(imag(x)), 32) {
			return fmt.Sprintf("%q evaluates to %s, want complex64 %v", text, val, x)
		}
	default:
		return fmt.Sprintf("unsupported value type %T in the harness", v)
	}
	return ""
}

// judgeLitSource type-checks src (package p; var X0 = …; var X1 = …) and judges initialiser i against vals[i].
func judgeLitSource(src []byte, vals []interface{}) (problems map[int]string, fatal string) {
	problems = map[int]string{}
	fset := token.NewFileSet()
	af, err := parser.ParseFile(fset, "lits.go", src, parser.SkipObjectResolution)
	if err != nil {
		return nil, "batch does not parse: " + err.Error()
	}
	info := &types.Info{Types: map[ast.Expr]types.TypeAndValue{}}
	var terrs []string
	conf := types.Config{Error: func(e error) { terrs = append(terrs, e.Error()) }}
	conf.Check("p", fset, []*ast.File{af}, info)
	n := 0
	for _, d := range af.Decls {
		gd, ok := d.(*ast.GenDecl)
		if !ok || gd.Tok != token.VAR {
			continue
		}
		for _, sp := range gd.Specs {
			vs := sp.(*ast.ValueSpec)
			if len(vs.Names) != 1 || len(vs.Values) != 1 || !strings.HasPrefix(vs.Names[0].Name, "X") {
				continue
			}
			var i int
			fmt.Sscanf(vs.Names[0].Name, "X%d", &i)
			if i >= len(vals) {
				return nil, "unexpected declaration " + vs.Names[0].Name
			}
			n++
			e := vs.Values[0]
			text := string(src[fset.Position(e.Pos()).Offset:fset.Position(e.End()).Offset])
			tv, known := info.Types[e]
			if p := litProblem(vals[i], tv, known, text); p != "" {
				problems[i] = p
			}
		}
	}
	if n != len(vals) {
		return nil, fmt.Sprintf("batch declares %d literals, expected %d (type errors: %v)", n, len(vals), first(terrs, 3))
	}
	return problems, ""
}

// judgeLitList: src declares `var L = []interface{}{…}` and `var M = []interface{}{…}`, each holding vals in order.
func judgeLitList(src []byte, vals []interface{}) (problems map[int]string, fatal string) {
	problems = map[int]string{}
	fset := token.NewFileSet()
	af, err := parser.ParseFile(fset, "list.go", src, parser.SkipObjectResolution)
	if err != nil {
		return nil, "does not parse: " + err.Error()
	}
	info := &types.Info{Types: map[ast.Expr]types.TypeAndValue{}}
	conf := types.Config{Error: func(error) {}}
	conf.Check("p", fset, []*ast.File{af}, info)
	n := 0
	ast.Inspect(af, func(nd ast.Node) bool {
		cl, ok := nd.(*ast.CompositeLit)
		if !ok {
			return true
		}
		if len(cl.Elts) != len(vals) {
			fatal = fmt.Sprintf("list has %d items, want %d", len(cl.Elts), len(vals))
			return false
		}
		for i, e := range cl.Elts {
			text := string(src[fset.Position(e.Pos()).Offset:fset.Position(e.End()).Offset])
			tv, known := info.Types[e]
			if p := litProblem(vals[i], tv, known, text); p != "" {
				problems[n*len(vals)+i] = p
			}
		}
		n++
		return false
	})
	if fatal == "" && n != 2 {
		fatal = fmt.Sprintf("found %d lists, want 2", n)
	}
	return problems, fatal
}

func first(s []string, n int) []string {
	if len(s) > n {
		return s[:n]
	}
	return s
}

func litBatchFile(vals []interface{}, useFunc, noFormat bool) ([]byte, string) {
	f := jen.NewFile("p")
	f.NoFormat = noFormat
	for i, v := range vals {
		v := v
		if useFunc {
			f.Var().Id(fmt.Sprintf("X%d", i)).Op("=").LitFunc(func() interface{} { return v })
		} else {
			f.Var().Id(fmt.Sprintf("X%d", i)).Op("=").Lit(v)
		}
	}
	buf := &bytes.Buffer{}
	var err error
	if p, what := mon.Guard(func() { err = f.Render(buf) }); p {
		return nil, "panic: " + what
	}
	if err != nil {
		return nil, "render error: " + mon.Trunc(err.Error(), 400)
	}
	return buf.Bytes(), ""
}

type litBatch struct {
	name string
	vals []interface{}
	exh  bool
}

func c11Batches(r *mon.Run) []litBatch {
	var out []litBatch
	add := func(name string, exh bool, vals []interface{}) {
		for i := 0; i < len(vals); i += 2000 {
			j := i + 2000
			if j > len(vals) {
				j = len(vals)
			}
			out = append(out, litBatch{fmt.Sprintf("%s/%d", name, i/2000), vals[i:j], exh})
		}
	}
	add("bool", true, []interface{}{true, false})
	{
		var a, b []interface{}
		for i := -128; i <= 127; i++ {
			a = append(a, int8(i))
		}
		for i := 0; i <= 255; i++ {
			b = append(b, uint8(i))
		}
		add("int8", true, a)
		add("uint8", true, b)
	}
	{
		var a, b []interface{}
		step := 1
		if !r.Thorough() {
			step = 37
		}
		for i := -32768; i <= 32767; i += step {
			a = append(a, int16(i))
		}
		for i := 0; i <= 65535; i += step {
			b = append(b, uint16(i))
		}
		a = append(a, int16(-32768), int16(32767), int16(-1), int16(0), int16(1), int16(-129), int16(128), int16(255), int16(256))
		b = append(b, uint16(0), uint16(65535), uint16(255), uint16(256), uint16(32767), uint16(32768))
		add("int16", step == 1, a)
		add("uint16", step == 1, b)
	}
	// wider integers: boundaries, powers of two +-1, decimal-length boundaries, random
	nRand := r.Pick(1500, 200000)
	rnd := r.Rand("C11/ints", 0)
	signed := func(bits uint, conv func(int64) interface{}) []interface{} {
		var vs []interface{}
		min := int64(-1) << (bits - 1)
		max := -(min + 1)
		cands := []int64{min, min + 1, max, max - 1, 0, 1, -1}
		for b := uint(0); b < bits-1; b++ {
			p := int64(1) << b
			cands = append(cands, p, p-1, p+1, -p, -p-1, -p+1)
		}
		for d := int64(10); d > 0 && d <= max/10; d *= 10 {
			cands = append(cands, d, d-1, d+1, -d, -d+1, -d-1)
		}
		for _, c := range cands {
			if c >= min && c <= max {
				vs = append(vs, conv(c))
			}
		}
		for i := 0; i < nRand; i++ {
			x := int64(rnd.Uint64()) >> uint(rnd.Intn(int(bits)))
			if bits < 64 {
				x = x % (max + 1)
			}
			if x >= min && x <= max {
				vs = append(vs, conv(x))
			}
		}
		return vs
	}
	unsigned := func(bits uint, conv func(uint64) interface{}) []interface{} {
		var vs []interface{}
		max := ^uint64(0) >> (64 - bits)
		cands := []uint64{0, 1, max, max - 1, max >> 1, (max >> 1) + 1}
		for b := uint(0); b < bits; b++ {
			p := uint64(1) << b
			cands = append(cands, p, p-1, p+1)
		}
		for d := uint64(10); d <= max/10; d *= 10 {
			cands = append(cands, d, d-1, d+1)
		}
		for _, c := range cands {
			if c <= max {
				vs = append(vs, conv(c))
			}
		}
		for i := 0; i < nRand; i++ {
			x := rnd.Uint64() >> uint(rnd.Intn(int(bits)))
			vs = append(vs, conv(x&max))
		}
		return vs
	}
	add("int", false, signed(64, func(x int64) interface{} { return int(x) }))
	add("int32", false, signed(32, func(x int64) interface{} { return int32(x) }))
	add("int64", false, signed(64, func(x int64) interface{} { return x }))
	add("uint", false, unsigned(64, func(x uint64) interface{} { return uint(x) }))
	add("uint32", false, unsigned(32, func(x uint64) interface{} { return uint32(x) }))
	add("uint64", false, unsigned(64, func(x uint64) interface{} { return x }))
	add("uintptr", false, unsigned(64, func(x uint64) interface{} { return uintptr(x) }))

	f64 := c11Floats(r.Rand("C11/f64", 0), r.Pick(6000, 600000))
	var f64v, f32v, c128v, c64v []interface{}
	for _, f := range f64 {
		f64v = append(f64v, f)
		g := float32(f)
		if !math.IsInf(float64(g), 0) {
			f32v = append(f32v, g)
		}
	}
	// float32-specific boundaries
	for _, g := range []float32{math.MaxFloat32, -math.MaxFloat32, math.SmallestNonzeroFloat32, -math.SmallestNonzeroFloat32, 1 << 24, 1<<24 + 2, 16777216, 0.1, 1e-45, 3.4e38, 1e10, 1e7, 1e6, 123456, 1234567} {
		f32v = append(f32v, g)
	}
	rc := r.Rand("C11/f32bits", 0)
	for i := 0; i < r.Pick(2000, 300000); i++ {
		g := math.Float32frombits(rc.Uint32())
		if !math.IsNaN(float64(g)) && !math.IsInf(float64(g), 0) {
			f32v = append(f32v, g)
		}
	}
	rcx := r.Rand("C11/complex", 0)
	for i := 0; i < r.Pick(3000, 300000); i++ {
		a, b := f64[rcx.Intn(len(f64))], f64[rcx.Intn(len(f64))]
		c128v = append(c128v, complex(a, b))
		a32, b32 := float32(a), float32(b)
		if !math.IsInf(float64(a32), 0) && !math.IsInf(float64(b32), 0) {
			c64v = append(c64v, complex(a32, b32))
		}
	}
	add("float64", false, f64v)
	add("float32", false, f32v)
	add("complex128", false, c128v)
	add("complex64", false, c64v)
	return out
}

// c11Floats: subnormals, extremes, both zeros, integral values of every decimal length, every decade
// 1e-324..1e308 with +-1 ulp neighbours, and random bit patterns (finite only), with both signs.
func c11Floats(rnd *rand.Rand, nRand int) []float64 {
	var fs []float64
	add := func(f float64) {
		if math.IsNaN(f) || math.IsInf(f, 0) {
			return
		}
		fs = append(fs, f, -f)
	}
	add(0)
	add(math.Copysign(0, -1))
	add(math.SmallestNonzeroFloat64)
	add(math.MaxFloat64)
	add(math.Float64frombits(0x000fffffffffffff)) // largest subnormal
	add(math.Float64frombits(0x0010000000000000)) // smallest normal
	for e := -324; e <= 308; e++ {
		f := math.Pow(10, float64(e))
		add(f)
		add(math.Nextafter(f, math.Inf(1)))
		add(math.Nextafter(f, 0))
		add(1.5 * f)
		add(9.999999999999999 * f)
	}
	// integral values: every decimal length 1..23, several digit patterns
	for digits := 1; digits <= 23; digits++ {
		lo := math.Pow(10, float64(digits-1))
		for k := 0; k < 12; k++ {
			var f float64
			switch k {
			case 0:
				f = lo
			case 1:
				f = lo*10 - 1
			case 2:
				f = lo * 5
			case 3:
				f = lo + 1
			default:
				f = math.Floor(lo + rnd.Float64()*(lo*9))
			}
			add(math.Trunc(f))
		}
	}
	for i := 0; i < 400; i++ {
		add(float64(rnd.Intn(2000000))) // whole numbers around the %g fixed/exponent switch at 1e6 … and below
		add(float64(rnd.Int63n(1 << 53)))
	}
	for b := 0; b < 64; b++ {
		add(float64(uint64(1) << uint(b)))
		add(float64(uint64(1)<<uint(b)) + 0.5)
	}
	add(0.1)
	add(0.2)
	add(0.30000000000000004)
	add(1.0 / 3)
	add(123456.0)
	add(1234567.0)
	add(100000)
	add(999999)
	add(1e6)
	add(1e20)
	add(1e21)
	add(1e-4)
	add(1e-5)
	add(0.000123)
	add(0.0000123)
	for i := 0; i < nRand; i++ {
		switch i % 3 {
		case 0:
			add(math.Float64frombits(rnd.Uint64()))
		case 1:
			// random mantissa digits x random decade
			m := float64(rnd.Int63n(1e17)) / math.Pow(10, float64(rnd.Intn(18)))
			add(m * math.Pow(10, float64(rnd.Intn(80)-40)))
		default:
			add(math.Round(rnd.Float64()*math.Pow(10, float64(rnd.Intn(9)))) / math.Pow(10, float64(rnd.Intn(6))))
		}
	}
	return fs
}

func runC11(r *mon.Run) {
	r.SetRule("Lit(v)/LitFunc for every supported type; exhaustive bool, 8-bit (both tiers), 16-bit (thorough); wider integers: limits, 2^k+-1, 10^k+-1, random; floats: +-0, subnormals, extremes, every decade 1e-324..1e308 +-1ulp, integral values of every decimal length 1..23, random bit patterns and decimal mantissas; complex: pairs of those. Each batch rendered formatted, NoFormat and via LitFunc; one value of every type next to an import that wants the name of each predeclared numeric/boolean type (as last path element, alias, real name); LitFunc with a stateful function (called exactly once, at construction); literals as operands of *, + and - inside list items (composite-literal elements, Dict values, call arguments, assignment lists) and outside, evaluated as constants. non-trivial = every value; distinct by (type,value)")
	r.Assume("'exactly v' for floats is read as 'the constant converts to exactly v in its type'; +0 and -0 are identified because Go constants have no negative zero; NaN/Inf excluded by the statement")
	c11NegControls(r)
	batches := c11Batches(r)
	exhTypes := []string{}
	seenExh := map[string]bool{}
	for _, b := range batches {
		t := strings.SplitN(b.name, "/", 2)[0]
		if b.exh && !seenExh[t] {
			seenExh[t] = true
			exhTypes = append(exhTypes, t)
		}
	}
	r.Put("exhaustive_types", exhTypes)
	mon.Parallel(len(batches), func(bi int) { c11Batch(r, batches, bi) })
	c11MixedKinds(r)
	c11Neighbours(r)
	c11Operands(r)
	r.Sample(map[string]interface{}{"batch": batches[len(batches)/2].name, "first_values": fmt.Sprintf("%v", first2(batches[len(batches)/2].vals, 8))})
}

// c11Neighbours: typed literals render a conversion T(v); T must still be the predeclared type when the same File
// imports a package that wants the name T (as last path element, as alias or as real name), and LitFunc must
// behave like Lit on the value its function returns — one call, also when the function is not pure.
func c11Neighbours(r *mon.Run) {
	typeNames := []string{"bool", "int", "int8", "int16", "int32", "int64", "uint", "uint8", "uint16", "uint32", "uint64", "uintptr", "float32", "float64", "complex64", "complex128", "byte", "rune", "true", "false"}
	vals := []interface{}{true, false, int(-3), int8(-7), int16(300), int32(-70000), int64(1 << 40), uint(3), uint8(200), uint16(60000), uint32(4000000000), uint64(1 << 63), uintptr(9), float32(1.5), float64(2.25), float64(3), complex64(complex(1, 2)), complex128(complex(3, -4))}
	for ti, tn := range typeNames {
		for style := 0; style < 3; style++ {
			for _, noFormat := range []bool{false, true} {
				c := mon.Case{Gen: "neighbour", Seed: r.Seed, Index: int64(ti*3 + style), Extra: mon.J(map[string]interface{}{"name": tn, "style": style, "noformat": noFormat})}
				f := jen.NewFile("p")
				f.NoFormat = noFormat
				path := "example.com/codec/" + tn
				switch style {
				case 1:
					path = "example.com/codec/zz"
					f.ImportAlias(path, tn)
				case 2:
					if tn == "true" || tn == "false" {
						continue
					}
					path = "example.com/codec/zz"
					f.ImportName(path, tn)
				}
				f.Var().Id("Ref").Op("=").Qual(path, "Sym")
				for i, v := range vals {
					f.Var().Id(fmt.Sprintf("X%d", i)).Op("=").Lit(v)
				}
				src, fail := renderFile(f)
				if fail != "" {
					r.Violate("batch-unusable", c, "typed literals next to an import that wants the name %s (style %d): %s", tn, style, fail)
					continue
				}
				probs, fatal := judgeLitSource(src, vals)
				if fatal != "" {
					r.Violate("batch-unusable", c, "typed literals next to an import that wants the name %s (style %d): %s", tn, style, fatal)
				}
				for i, p := range probs {
					r.Violate("literal-next-to-import", c, "Lit(%s) in a File that imports a package wanting the name %s (style %d): %s\n%s", fmtExact(vals[i]), tn, style, p, mon.Trunc(string(src), 700))
				}
				r.Count("files_with_a_neighbouring_import_wanting_a_type_name", 1)
			}
		}
		r.Eval("neighbour|"+tn, true)
	}
	// many imports competing for a base name whose numbered forms are predeclared types: the k-th competitor of
	// "int" must not be called int8, int16 … (typed literals in the same File would stop being conversions)
	for ci, comp := range []struct {
		base string
		n    int
	}{{"int", 9}, {"uint", 9}, {"int", 17}, {"uint", 17}, {"int", 33}, {"float", 33}, {"uint", 33}, {"int", 65}, {"float", 65}, {"complex", 65}, {"uint", 65}, {"complex", 129}} {
		c := mon.Case{Gen: "neighbour", Seed: r.Seed, Index: int64(1000 + ci), Extra: mon.J(comp)}
		f := jen.NewFile("p")
		for k := 0; k < comp.n; k++ {
			f.Var().Id(fmt.Sprintf("Ref%d", k)).Op("=").Qual(fmt.Sprintf("example.com/m%d/%s", k, comp.base), "Sym")
		}
		for i, v := range vals {
			f.Var().Id(fmt.Sprintf("X%d", i)).Op("=").Lit(v)
		}
		src, fail := renderFile(f)
		if fail != "" {
			r.Violate("batch-unusable", c, "typed literals next to %d imports called %s: %s", comp.n, comp.base, fail)
			continue
		}
		probs, fatal := judgeLitSource(src, vals)
		if fatal != "" {
			r.Violate("batch-unusable", c, "typed literals next to %d imports called %s: %s", comp.n, comp.base, fatal)
		}
		for i, p := range probs {
			r.Violate("literal-next-to-import", c, "Lit(%s) in a File with %d imports called %s: %s", fmtExact(vals[i]), comp.n, comp.base, p)
		}
		r.Count("files_with_many_imports_competing_for_a_type_name_stem", 1)
		r.Eval(fmt.Sprintf("competing|%s|%d", comp.base, comp.n), true)
	}
	// a literal statement that was extended by chaining must not change what the same literal renders as elsewhere
	// (every Lit call gives a statement of its own)
	{
		c := mon.Case{Gen: "neighbour", Seed: r.Seed, Index: 2000}
		small := []interface{}{true, false, 0, 1, -1, 0.0, 1.0, int8(0), uint8(0), int64(1), float32(0), complex128(0), complex64(0), uintptr(0)}
		before := make([]string, len(small))
		for i, v := range small {
			before[i], _ = rawOf(jen.Var().Id("x").Op("=").Lit(v))
		}
		for _, v := range small {
			v := v
			jen.Lit(v).Op("&&").Id("pollutedQ")
			jen.LitFunc(func() interface{} { return v }).Op("||").Id("pollutedQ")
			jen.BlockFunc(func(g *jen.Group) { g.Lit(v).Dot("pollutedQ"); g.LitFunc(func() interface{} { return v }).Dot("pollutedQ") })
			(&jen.Statement{}).Lit(v).Op("+").Id("pollutedQ")
		}
		for i, v := range small {
			after, _ := rawOf(jen.Var().Id("x").Op("=").Add(jen.Lit(v))) // the package function, as the polluting statements used
			viaFunc, _ := rawOf(jen.Var().Id("x").Op("=").Add(jen.LitFunc(func() interface{} { return v })))
			viaMethod, _ := rawOf(jen.Var().Id("x").Op("=").Lit(v))
			viaGroup, _ := rawOf(jen.Var().Id("x").Op("=").Add(jen.CustomFunc(jen.Options{}, func(g *jen.Group) { g.Lit(v) })))
			if viaMethod != before[i] || viaGroup != before[i] {
				after = viaMethod + viaGroup
			}
			if after != before[i] || viaFunc != before[i] {
				r.Violate("literal-polluted", c, "Lit(%s) renders\n%s(via LitFunc: %s)after other statements that began with the same literal were extended by chaining; before it rendered\n%s", fmtExact(v), after, viaFunc, before[i])
			}
		}
		r.Count("literals_checked_for_shared_statements", int64(len(small)))
	}
	// stateful callbacks: a counter, an iterator over values of mixed types
	{
		c := mon.Case{Gen: "litfunc-stateful", Seed: r.Seed}
		seq := []interface{}{1, int8(-3), 2.0, uint16(7), true, float32(0.5), complex128(complex(1, 1)), "s", int64(-9), 3}
		calls := 0
		next := func() interface{} { v := seq[calls%len(seq)]; calls++; return v }
		f := jen.NewFile("p")
		var want []interface{}
		for i := 0; i < 3*len(seq); i++ {
			want = append(want, seq[i%len(seq)])
			switch i % 3 {
			case 0:
				f.Var().Id(fmt.Sprintf("X%d", i)).Op("=").LitFunc(next)
			case 1:
				f.Var().Id(fmt.Sprintf("X%d", i)).Op("=").Add(jen.LitFunc(next))
			default:
				f.Add(jen.Var().Id(fmt.Sprintf("X%d", i)).Op("=").Do(func(s *jen.Statement) { s.LitFunc(next) }))
			}
		}
		built := calls
		src, fail := renderFile(f)
		renderFile(f)
		switch {
		case built != len(want):
			r.Violate("litfunc-calls", c, "%d LitFunc constructions called the function %d times", len(want), built)
		case calls != built:
			r.Violate("litfunc-calls", c, "rendering called the LitFunc function again (%d calls after construction, %d after two renders)", built, calls)
		case fail != "":
			r.Violate("batch-unusable", c, "LitFunc with a stateful function: %s", fail)
		default:
			var nums []interface{}
			idx := map[int]int{}
			for i, v := range want {
				if _, isStr := v.(string); !isStr {
					idx[len(nums)] = i
					nums = append(nums, v)
				}
			}
			// renumber: judgeLitSource looks for X0..Xn-1; build the numeric-only file the same way
			calls = 0
			g := jen.NewFile("p")
			k := 0
			for i := 0; i < len(want); i++ {
				if _, isStr := want[i].(string); isStr {
					next()
					continue
				}
				g.Var().Id(fmt.Sprintf("X%d", k)).Op("=").LitFunc(next)
				k++
			}
			src2, fail2 := renderFile(g)
			if fail2 != "" {
				r.Violate("batch-unusable", c, "LitFunc with a stateful function: %s", fail2)
			} else {
				probs, fatal := judgeLitSource(src2, nums)
				if fatal != "" {
					r.Violate("batch-unusable", c, "LitFunc with a stateful function: %s", fatal)
				}
				for i, p := range probs {
					r.Violate("litfunc-stateful", c, "LitFunc(next) number %d should render %s: %s\n%s", idx[i], fmtExact(nums[i]), p, mon.Trunc(string(src2), 600))
				}
			}
			_ = src
		}
		r.Eval("litfunc-stateful", true)
		r.Count("stateful_litfunc_constructions", int64(len(want)))
	}
}

// c11Operands: a literal is one operand: next to an operator it must keep its value, also when the expression is an
// item of a comma-separated list (arguments, composite-literal elements, Dict values, assignment lists).
func c11Operands(r *mon.Run) {
	vals := []interface{}{complex(1, 2), complex(-1.5, 0.25), complex(3, -4), complex(0, 1), complex(2.5e10, -1e-3), complex64(complex(1, 2)), complex64(complex(-3, 0.5)),
		-1.5, 2.25, float32(-0.5), -7, 7, int8(-3), int64(-1 << 20), uint8(9)}
	c := mon.Case{Gen: "operands", Seed: r.Seed}
	for _, noFormat := range []bool{false, true} {
		f := jen.NewFile("p")
		f.NoFormat = noFormat
		f.Func().Id("lst").Params(jen.Id("x").Op("...").Interface()).Block()
		type want struct{ re, im float64 }
		var expect []want
		num := func(v interface{}) (float64, float64) {
			switch x := v.(type) {
			case complex128:
				return real(x), imag(x)
			case complex64:
				return float64(real(x)), float64(imag(x))
			case float64:
				return x, 0
			case float32:
				return float64(x), 0
			case int:
				return float64(x), 0
			case int8:
				return float64(x), 0
			case int64:
				return float64(x), 0
			case uint8:
				return float64(x), 0
			}
			return 0, 0
		}
		for i, v := range vals {
			re, im := num(v)
			_, unsigned := v.(uint8)
			mk := func() []jen.Code {
				items := []jen.Code{jen.Lit(v).Op("*").Lit(v), jen.Lit(v).Op("+").Lit(v).Op("*").Lit(v)}
				if !unsigned {
					items = append(items, jen.Lit(v).Op("-").Lit(v).Op("-").Lit(v))
				}
				return items
			}
			exp := []want{{re*re - im*im, 2 * re * im}, {re + re*re - im*im, im + 2*re*im}}
			if !unsigned {
				exp = append(exp, want{-re, -im})
			}
			// five contexts
			f.Var().Id(fmt.Sprintf("A%d", i)).Op("=").Index().Interface().Values(mk()...)
			d := jen.Dict{}
			for k, it := range mk() {
				d[jen.Lit(k)] = it
			}
			f.Var().Id(fmt.Sprintf("B%d", i)).Op("=").Map(jen.Int()).Interface().Values(d)
			f.Func().Id(fmt.Sprintf("F%d", i)).Params().Block(jen.Id("lst").Call(mk()...))
			if its := mk(); len(its) == 3 {
				f.Var().List(jen.Id(fmt.Sprintf("C%d", i)), jen.Id(fmt.Sprintf("D%d", i)), jen.Id(fmt.Sprintf("E%d", i))).Op("=").List(its...)
			} else {
				f.Var().List(jen.Id(fmt.Sprintf("C%d", i)), jen.Id(fmt.Sprintf("D%d", i))).Op("=").List(its...)
			}
			for k, it := range mk() {
				f.Var().Id(fmt.Sprintf("G%d_%d", i, k)).Op("=").Add(it)
			}
			for ctx := 0; ctx < 5; ctx++ {
				expect = append(expect, exp...)
			}
		}
		src, fail := renderFile(f)
		if fail != "" {
			r.Violate("batch-unusable", c, "literals as operands: %s", fail)
			continue
		}
		fset := token.NewFileSet()
		af, err := parser.ParseFile(fset, "o.go", src, parser.SkipObjectResolution)
		if err != nil {
			r.Violate("batch-unusable", c, "literals as operands: output does not parse: %v", err)
			continue
		}
		info := &types.Info{Types: map[ast.Expr]types.TypeAndValue{}}
		conf := types.Config{Error: func(error) {}}
		conf.Check("p", fset, []*ast.File{af}, info)
		var items []ast.Expr
		ast.Inspect(af, func(n ast.Node) bool {
			switch x := n.(type) {
			case *ast.CompositeLit:
				for _, e := range x.Elts {
					if kv, ok := e.(*ast.KeyValueExpr); ok {
						items = append(items, kv.Value)
					} else {
						items = append(items, e)
					}
				}
			case *ast.CallExpr:
				if id, ok := x.Fun.(*ast.Ident); ok && id.Name == "lst" {
					items = append(items, x.Args...)
				}
			case *ast.ValueSpec:
				if len(x.Values) > 0 {
					if _, isLit := x.Values[0].(*ast.CompositeLit); !isLit {
						items = append(items, x.Values...)
					}
				}
			}
			return true
		})
		if len(items) != len(expect) {
			r.Violate("batch-unusable", c, "literals as operands: %d item expressions found, want %d\n%s", len(items), len(expect), mon.Trunc(string(src), 1500))
			continue
		}
		bad := 0
		for k, e := range items {
			tv, ok := info.Types[e]
			text := string(src[fset.Position(e.Pos()).Offset:fset.Position(e.End()).Offset])
			if !ok || tv.Value == nil {
				r.Violate("literal-as-operand", c, "item %d %q is not a constant expression (NoFormat=%v)", k, text, noFormat)
				bad++
			} else {
				re, _ := constant.Float64Val(constant.Real(tv.Value))
				im, _ := constant.Float64Val(constant.Imag(tv.Value))
				we := expect[k]
				close := func(a, b float64) bool { return a == b || math.Abs(a-b) <= 1e-6*math.Max(math.Abs(a), math.Abs(b)) }
				if !close(re, we.re) || !close(im, we.im) {
					r.Violate("literal-as-operand", c, "item %d %q has the value (%g, %gi), want (%g, %gi): the literal did not stay one operand (NoFormat=%v)", k, text, re, im, we.re, we.im, noFormat)
					bad++
				}
			}
			if bad > 5 {
				break
			}
		}
		r.Count("literals_as_operands_in_list_items", int64(len(items)))
	}
	r.Eval("operands", true)
}

// c11MixedKinds: one File in which the same number appears as a rune literal, a byte literal and as Lit of
// several integer types, in changing order (a literal must not depend on what the File rendered before), and
// long lists made of numeric literals only.
func c11MixedKinds(r *mon.Run) {
	rnd := r.Rand("C11/mixed", 0)
	for round := 0; round < r.Pick(20, 400); round++ {
		c := mon.Case{Gen: "mixed", Seed: r.Seed, Index: int64(round)}
		f := jen.NewFile("p")
		var want []interface{}
		n := 0
		add := func(st *jen.Statement, v interface{}) {
			f.Var().Id(fmt.Sprintf("X%d", n)).Op("=").Add(st)
			want = append(want, v)
			n++
		}
		for i := 0; i < 60; i++ {
			v := rnd.Intn(200)
			order := rnd.Perm(6)
			for _, k := range order {
				switch k {
				case 0:
					add(jen.LitRune(rune(v)), runeConst(v))
				case 1:
					add(jen.Lit(int32(v)), int32(v))
				case 2:
					add(jen.LitByte(byte(v)), uint8(v))
				case 3:
					add(jen.Lit(uint8(v)), uint8(v))
				case 4:
					add(jen.Lit(v), v)
				default:
					add(jen.Lit(float64(v)), float64(v))
				}
			}
		}
		src, fail := renderFile(f)
		if fail != "" {
			r.Violate("render-failure", c, "mixed-kind file does not render: %s", fail)
			continue
		}
		probs, fatal := judgeLitSource(src, want)
		if fatal != "" {
			r.Violate("batch-unusable", c, "mixed-kind file: %s", fatal)
		}
		for i, p := range probs {
			r.Violate("literal-mixed-kinds", c, "in a File that mixes rune, byte and integer literals of equal value, item %d (%T %v): %s", i, want[i], want[i], p)
		}
		// numeric-only lists of 40-120 items
		var items []jen.Code
		var lw []interface{}
		for i, m := 0, 40+rnd.Intn(81); i < m; i++ {
			var v interface{}
			switch rnd.Intn(7) {
			case 0:
				v = float64(rnd.Intn(1000))
			case 1:
				v = rnd.Float64() * 100
			case 2:
				v = 1e+06 * float64(1+rnd.Intn(9))
			case 3:
				v = uint8(rnd.Intn(256))
			case 4:
				v = rnd.Intn(100000)
			case 5:
				v = float32(rnd.Intn(50))
			default:
				v = int64(rnd.Intn(1 << 40))
			}
			lw = append(lw, v)
			items = append(items, jen.Lit(v))
		}
		g := jen.NewFile("p")
		g.Var().Id("L").Op("=").Index().Interface().Values(items...)
		g.Var().Id("M").Op("=").Index().Interface().ValuesFunc(func(gr *jen.Group) {
			for _, v := range lw {
				gr.Lit(v)
			}
		})
		if src, fail := renderFile(g); fail != "" {
			r.Violate("render-failure", c, "numeric list of %d literals does not render: %s", len(lw), fail)
		} else if probs, fatal := judgeLitList(src, lw); fatal != "" {
			r.Violate("batch-unusable", c, "numeric list: %s", fatal)
		} else {
			for i, p := range probs {
				r.Violate("literal-in-list-numeric", c, "item %d of a %d-item list of numeric literals, %T(%v): %s", i%len(lw), len(lw), lw[i%len(lw)], lw[i%len(lw)], p)
			}
		}
		r.Count("mixed_kind_files", 1)
		r.Count("numeric_only_lists", 1)
	}
}

// runeConst marks a value that must come out as a rune literal (an untyped rune constant: default type int32).
type runeConst int

func first2(s []interface{}, n int) []interface{} {
	if len(s) > n {
		return s[:n]
	}
	return s
}

func c11Batch(r *mon.Run, batches []litBatch, bi int) {
	b := batches[bi]
	c := mon.Case{Gen: "batch", Seed: r.Seed, Index: int64(bi)}
	t := strings.SplitN(b.name, "/", 2)[0]
	var ref []byte
	for mode := 0; mode < 3; mode++ {
		src, fail := litBatchFile(b.vals, mode == 2, mode == 1)
		mname := []string{"Lit", "Lit+NoFormat", "LitFunc"}[mode]
		if fail != "" {
			// find the culprit so that the witness names a value, not a batch
			culprit := ""
			for _, v := range b.vals {
				if _, f1 := litBatchFile([]interface{}{v}, mode == 2, mode == 1); f1 != "" {
					culprit = fmt.Sprintf("%T(%v): %s", v, v, f1)
					break
				}
			}
			r.Violate("render-failure", c, "batch %s (%s) does not render: %s; first failing value: %s", b.name, mname, fail, culprit)
			continue
		}
		if mode == 0 {
			ref = src
		}
		if mode == 2 && !bytes.Equal(ref, src) && ref != nil {
			r.Violate("litfunc-differs", c, "batch %s: LitFunc rendering differs from Lit rendering", b.name)
		}
		probs, fatal := judgeLitSource(src, b.vals)
		if fatal != "" {
			r.Violate("batch-unusable", c, "batch %s (%s): %s", b.name, mname, fatal)
			continue
		}
		for i, p := range probs {
			r.Violate("literal-"+t, mon.Case{Gen: "value", Seed: r.Seed, Index: int64(bi), Extra: mon.J(map[string]interface{}{"i": i, "value": fmt.Sprintf("%T(%v)", b.vals[i], b.vals[i])})},
				"%s of %T(%v): %s", mname, b.vals[i], b.vals[i], p)
		}
		if r.Verbose {
			fmt.Printf("batch %s mode %s: %d values, %d problems\n", b.name, mname, len(b.vals), len(probs))
			for i, p := range probs {
				fmt.Printf("  %T(%v): %s\n", b.vals[i], b.vals[i], p)
			}
		}
	}
	// the same values as bare items of long single-line lists (`var X<i> = …` is one literal per statement;
	// a table of literals is the other common way they are generated)
	if bi%4 == 0 {
		vals := b.vals
		if len(vals) > 400 {
			vals = vals[:400]
		}
		mixed := make([]interface{}, 0, len(vals)+len(vals)/3)
		for i, v := range vals {
			mixed = append(mixed, v)
			if i%3 == 0 {
				mixed = append(mixed, []interface{}{0.5, "e.", true, 1e+06, int8(1)}[i/3%5]) // neighbours with '.', 'e', other types
			}
		}
		f := jen.NewFile("p")
		f.Var().Id("L").Op("=").Index().Interface().ValuesFunc(func(g *jen.Group) {
			for _, v := range mixed {
				g.Lit(v)
			}
		})
		// the same list built with the variadic form and LitFunc
		items := make([]jen.Code, len(mixed))
		for i, v := range mixed {
			v := v
			items[i] = jen.LitFunc(func() interface{} { return v })
		}
		f.Var().Id("M").Op("=").Index().Interface().Values(items...)
		if src, fail := renderFile(f); fail != "" {
			r.Violate("render-failure", c, "batch %s as a list of %d literals does not render: %s", b.name, len(mixed), fail)
		} else if probs, fatal := judgeLitList(src, mixed); fatal != "" {
			r.Violate("batch-unusable", c, "batch %s as a list: %s", b.name, fatal)
		} else {
			for i, p := range probs {
				r.Violate("literal-in-list-"+t, mon.Case{Gen: "value", Seed: r.Seed, Index: int64(bi), Extra: mon.J(map[string]interface{}{"i": i, "value": fmt.Sprintf("%T(%v)", mixed[i%len(mixed)], mixed[i%len(mixed)])})},
					"item %d of a %d-item list, %T(%v): %s", i%len(mixed), len(mixed), mixed[i%len(mixed)], mixed[i%len(mixed)], p)
			}
		}
		r.Count("values_also_rendered_as_list_items", int64(len(mixed)))
	}
	for _, v := range b.vals {
		r.Eval(fmt.Sprintf("%T|%v", v, fmtExact(v)), true)
	}
	r.Count("values."+t, int64(len(b.vals)))
	r.Count("batches", 1)
}

func fmtExact(v interface{}) string {
	switch x := v.(type) {
	case float64:
		return fmt.Sprintf("%x", math.Float64bits(x))
	case float32:
		return fmt.Sprintf("%x", math.Float32bits(x))
	case complex128:
		return fmt.Sprintf("%x,%x", math.Float64bits(real(x)), math.Float64bits(imag(x)))
	case complex64:
		return fmt.Sprintf("%x,%x", math.Float32bits(real(x)), math.Float32bits(imag(x)))
	}
	return fmt.Sprint(v)
}

func replayC11(r *mon.Run, c mon.Case) {
	if c.Gen == "neighbour" || c.Gen == "litfunc-stateful" {
		c11Neighbours(r)
		return
	}
	if c.Gen == "operands" {
		c11Operands(r)
		return
	}
	batches := c11Batches(r)
	if int(c.Index) < len(batches) {
		c11Batch(r, batches, int(c.Index))
	}
}

func c11NegControls(r *mon.Run) {
	ctl := func(name string, v interface{}, text string) {
		r.NegControl(name, func() {
			src := []byte("package p\n\nvar X0 = " + text + "\n")
			probs, fatal := judgeLitSource(src, []interface{}{v})
			if fatal != "" || len(probs) > 0 {
				r.Violate("negctl", mon.Case{Gen: "negctl"}, "%v %v", fatal, probs)
			}
		})
	}
	ctl("float-without-point", float64(100000), "100000")
	ctl("uint64-negative-text", uint64(math.MaxUint64), "uint64(-0x1)")
	ctl("float-one-ulp-off", float64(0.1), "0.10000000000000002")
	ctl("int8-untyped", int8(5), "5")
	ctl("int-off-by-one", int(41), "42")
	ctl("complex64-as-complex128", complex64(1+2i), "(1+2i)")
	ctl("bool-negated", true, "false")
	ctl("non-constant", int(1), "len([]int{1})")
	// and the inverse: correct texts must be accepted
	r.NegControl("sanity-inverse", func() {
		src := []byte("package p\nvar X0 = 100000.0\nvar X1 = uint64(0xffffffffffffffff)\nvar X2 = float32(0.1)\nvar X3 = complex64(1+2i)\nvar X4 = -5\n")
		probs, fatal := judgeLitSource(src, []interface{}{float64(100000), uint64(math.MaxUint64), float32(0.1), complex64(1 + 2i), int(-5)})
		if fatal == "" && len(probs) == 0 {
			r.Violate("negctl", mon.Case{Gen: "negctl"}, "accepted (expected)")
		}
	})
}
