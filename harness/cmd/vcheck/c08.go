package main

import (
	"bytes"
	"fmt"
	"io"
	"go/parser"
	"go/token"
	"math/rand"
	"regexp"
	"strconv"
	"strings"

	"github.com/dave/jennifer/jen"

	"verifharness/mon"
)

// C08: rendering is repeatable and import names are stable across renders. Random histories over one
// File are executed against the real code; every event (operation, bytes, error, qualifier map, import
// specs) is recorded and the log is judged offline by checkHistory.

func init() {
	register("C08", "exploration", runC08, replayC08)
}

var c08Paths = []string{"a.b/x", "c.d/x", "e.f/x", "g/y", "h/y", "fmt", "math/rand", "crypto/rand", "os", "k/type", "n/any", "C", "r/d", "s/d", "my/local", "t/init", "u/pk_x", "github.com/a/b/vendor/github.com/pkg/errors", "v.w/strs", "w.x/slash/", "w.x/slash", "9fans.net/go/acme", "B612.example/font"}
var c08Aliases = []string{"x", "y", "zz", "rand", "d", ".", "x1", "fmt", "pk_x", "y1"}

type hEvent struct {
	Op     string            `json:"op"`               // FileRender | StmtRender | GroupRender | Add | ImportName | ImportAlias | Anon | Prefix
	Target int               `json:"target,omitempty"` // fragment index
	Arg    string            `json:"arg,omitempty"`
	Via    string            `json:"via,omitempty"` // how the render was driven: "" Render twice | "GoString" | "failing-writer" (a render whose writer fails: expected to return that error and to leave no trace)
	Out    string            `json:"out,omitempty"`
	Out2   string            `json:"out2,omitempty"` // the immediate repeat of a render
	Err    string            `json:"err,omitempty"`
	Err2   string            `json:"err2,omitempty"`
	Quals  map[int]string    `json:"quals,omitempty"` // path index -> qualifier ("" bare) seen in Out
	Multi  []string          `json:"multi,omitempty"` // paths seen under two qualifiers within one output
	Specs  map[string]string `json:"specs,omitempty"` // FileRender: path -> import name ("<none>" if un-aliased)
	DupImp []string          `json:"dup_imports,omitempty"`
}

var symRe = regexp.MustCompile(`(?:([\pL_][\pL\pN_]*)\s*\.\s*)?Sym(\d+)X`)

func extractQuals(out string) (map[int]string, []string) {
	q := map[int]string{}
	var multi []string
	for _, m := range symRe.FindAllStringSubmatch(out, -1) {
		pi, _ := strconv.Atoi(m[2])
		if prev, ok := q[pi]; ok && prev != m[1] {
			multi = append(multi, fmt.Sprintf("%s: %q and %q", c08Paths[pi%len(c08Paths)], prev, m[1]))
		}
		q[pi] = m[1]
	}
	return q, multi
}

func extractSpecs(out string) (map[string]string, []string, error) {
	af, err := parser.ParseFile(token.NewFileSet(), "o.go", out, parser.ImportsOnly)
	if err != nil {
		return nil, nil, err
	}
	specs := map[string]string{}
	var dups []string
	for _, is := range af.Imports {
		p, _ := strconv.Unquote(is.Path.Value)
		n := "<none>"
		if is.Name != nil {
			n = is.Name.Name
		}
		if _, dup := specs[p]; dup {
			dups = append(dups, p)
		}
		specs[p] = n
	}
	return specs, dups, nil
}

// checkHistory is the offline checker: it sees only the recorded events.
func checkHistory(evs []hEvent, localPath string) []string {
	var probs []string
	seen := map[int]string{}
	add := func(i int, format string, a ...interface{}) {
		probs = append(probs, fmt.Sprintf("event %d (%s): ", i, evs[i].Op)+fmt.Sprintf(format, a...))
	}
	// last clean output per render target; a target is "dirty" when something happened since that may
	// legitimately change its output (file: any addition, hint, prefix change or fragment render, which can
	// add an import; fragments and groups: hints and prefix changes for paths not rendered yet)
	last := map[string]string{}
	clean := map[string]bool{}
	dirtyAll := func(fileOnly bool) {
		for k := range clean {
			if !fileOnly || k == "F" {
				clean[k] = false
			}
		}
	}
	for i, e := range evs {
		switch e.Op {
		case "Add":
			dirtyAll(true)
		case "ImportName", "ImportAlias", "ImportNames":
			// a hint for a path that already appeared in an output produced with this File changes nothing (the
			// registered name wins); only a hint for a path not seen yet may change later output
			noop := true
			for _, hp := range strings.Split(strings.SplitN(e.Arg, " ", 2)[0], ",") {
				known := false
				for pi := range seen {
					if c08Paths[pi] == hp {
						known = true
					}
				}
				if !known {
					noop = false
				}
			}
			if !noop {
				dirtyAll(false)
			}
		case "Anon", "Prefix", "CgoPreamble":
			dirtyAll(false)
		}
		switch e.Op {
		case "FileRender", "StmtRender", "GroupRender":
			key := "F"
			if e.Op != "FileRender" {
				key = fmt.Sprintf("%s%d", e.Op[:1], e.Target)
			}
			if e.Via == "failing-writer" {
				// the harness made the writer fail: the render must report it, and must leave no trace
				// (judged by the next render of the same target, which is compared with the last clean output)
				if e.Err == "" {
					add(i, "[repeat] a render whose writer fails returned nil")
				}
				if e.Op != "FileRender" {
					clean["F"] = false // the fragment was rendered (only the final write failed): its imports are registered
				}
				continue
			}
			if e.Err == "" && clean[key] && last[key] != e.Out {
				add(i, "[repeat] nothing that could change this output happened since it was last rendered (only renders, some of them failing on purpose), yet the bytes differ:\n--- before ---\n%s\n--- now ---\n%s", last[key], e.Out)
			}
			if e.Err == "" {
				last[key], clean[key] = e.Out, true
				if e.Op != "FileRender" {
					clean["F"] = false // a fragment rendered with the File may have added an import to it
				}
			}
			if e.Err != "" {
				add(i, "render failed: %s", mon.Trunc(e.Err, 300))
				continue
			}
			if e.Via == "GoString" {
				// one render through GoString; nothing to compare with an immediate repeat
			} else if e.Err2 != "" {
				add(i, "[repeat] the immediate repeat of a successful render failed: %s", mon.Trunc(e.Err2, 300))
			} else if e.Out2 != e.Out {
				add(i, "[repeat] the immediate repeat of the render produced different bytes:\n--- first ---\n%s\n--- second ---\n%s", e.Out, e.Out2)
			}
			for _, m := range e.Multi {
				add(i, "[monotone] one output uses two qualifiers for %s", m)
			}
			for pi, q := range e.Quals {
				if prev, ok := seen[pi]; ok && prev != q {
					add(i, "[monotone] path %q was rendered as %q earlier and is %q now", c08Paths[pi], prev, q)
				}
				seen[pi] = q
			}
			if e.Op == "FileRender" {
				for _, d := range e.DupImp {
					add(i, "[declared] path %q imported twice", d)
				}
				for pi, q := range seen {
					p := c08Paths[pi]
					if p == localPath {
						if q != "" {
							add(i, "local path rendered with qualifier %q", q)
						}
						continue
					}
					n, ok := e.Specs[p]
					switch {
					case !ok:
						add(i, "[declared] path %q was emitted as %q with this File but the import block does not declare it", p, q)
					case q == "" && n != ".":
						add(i, "[declared] path %q is referred to by bare identifiers but imported as %q", p, n)
					case q != "" && n != "<none>" && n != q:
						add(i, "[declared] path %q is referred to as %q but imported as %q", p, q, n)
					}
				}
			}
		}
	}
	return probs
}

func c08Stmt(r *rand.Rand, pi int, used *[]int) *jen.Statement {
	q := jen.Qual(c08Paths[pi], fmt.Sprintf("Sym%dX", pi))
	n := r.Intn(1e6)
	switch r.Intn(12) {
	case 11:
		// a literal produced by a function with state: it is evaluated when the statement is built, never again
		cnt := n
		return jen.Var().Id(fmt.Sprintf("V_%d", n)).Op("=").Index().Interface().Values(q, jen.LitFunc(func() interface{} { cnt++; return cnt }), jen.LitRuneFunc(func() rune { cnt++; return rune('a' + cnt%26) }))
	case 10:
		// pairs with identical keys whose values come from two packages (their order rests on an alias-free rendering)
		pj := r.Intn(len(c08Paths))
		*used = append(*used, pj)
		return jen.Var().Id(fmt.Sprintf("V_%d", n)).Op("=").Id("M").Values(jen.Dict{jen.Id("k").Call(): q, jen.Id("k").Call(): jen.Qual(c08Paths[pj], fmt.Sprintf("Sym%dX", pj)), jen.Id("k").Call(): q.Clone().Call()})
	case 9:
		// untyped nil items in front of and between real ones, in several kinds of group
		return jen.Func().Id(fmt.Sprintf("F_%d", n)).Params(nil, jen.Id("a").Int(), nil, jen.Id("b").Int()).Block(
			nil,
			jen.Id("_").Op("=").Id("g").Call(nil, q, nil, jen.Lit(1), jen.Null(), jen.Lit(2)),
			nil,
			jen.Id("_").Op("=").Index().Int().Values(nil, jen.Lit(3), q.Clone()),
			jen.Return(),
		)
	case 0:
		return jen.Var().Id(fmt.Sprintf("V_%d", n)).Op("=").Add(q)
	case 1:
		return jen.Func().Id(fmt.Sprintf("F_%d", n)).Params().Block(jen.Switch(q).Block(jen.Case(jen.Lit(1)).Block(), jen.Case(jen.Lit(2)).Block(nil), jen.Default().Block(jen.Return())))
	case 2:
		return jen.Var().Id(fmt.Sprintf("V_%d", n)).Op("=").Map(jen.Int()).Int().Values(jen.Dict{q: jen.Lit(1), jen.Lit(0): jen.Lit(2)})
	case 3:
		return jen.Func().Id(fmt.Sprintf("F_%d", n)).Params().Block(q.Call(nil, jen.Null()))
	case 4:
		return jen.Type().Id(fmt.Sprintf("T_%d", n)).Struct(jen.Id("A").Add(q).Tag(map[string]string{"j": "k", "a": "b"}))
	case 5:
		pj := r.Intn(len(c08Paths))
		*used = append(*used, pj)
		return jen.Var().Id(fmt.Sprintf("V_%d", n)).Op("=").Map(jen.Int()).Int().Values(jen.Dict{q: jen.Lit(1), jen.Qual(c08Paths[pj], fmt.Sprintf("Sym%dX", pj)): jen.Lit(2)})
	case 6:
		return jen.Func().Id(fmt.Sprintf("F_%d", n)).Params().Block(jen.Select().Block(jen.Case(jen.Op("<-").Add(q)).Block(), jen.Default().Block()), jen.Switch().Block(jen.Default().Block(nil, jen.Null())))
	case 7:
		return jen.Func().Id(fmt.Sprintf("F_%d", n)).Params().Block(jen.If(q.Clone().Op(">").Lit(1)).Block(jen.Comment("c")).Else().Block(jen.Line(), jen.Return()), jen.For(jen.Empty(), jen.Empty(), jen.Empty()).Block(jen.Id("_").Op("=").Add(q)))
	default:
		return jen.Var().Id(fmt.Sprintf("V_%d", n)).Op("=").Index().Int().Values(q, q.Clone().Op("+").Lit(1))
	}
}

type c08Run struct {
	evs       []hEvent
	local     string
	treeDiffs int
}

func c08Execute(rnd *rand.Rand) *c08Run {
	run := &c08Run{}
	var f *jen.File
	if rnd.Intn(3) == 0 {
		run.local = "my/local"
		f = jen.NewFilePathName("my/local", "main")
	} else {
		f = jen.NewFile("main")
	}
	f.NoFormat = rnd.Intn(4) == 0
	if rnd.Intn(3) == 0 {
		f.PackagePrefix = "pk"
	}
	var frags []*jen.Statement
	var groups []*jen.Group
	var usedPaths []int
	var anonPending []int // pool paths that were Anon'd and that nothing refers to yet
	for i := 0; i < 3; i++ {
		pi := rnd.Intn(len(c08Paths))
		usedPaths = append(usedPaths, pi)
		frags = append(frags, c08Stmt(rnd, pi, &usedPaths))
	}
	for i := 0; i < 2; i++ {
		pi := rnd.Intn(len(c08Paths))
		usedPaths = append(usedPaths, pi)
		jen.BlockFunc(func(g *jen.Group) {
			g.Add(jen.Id("_").Op("=").Qual(c08Paths[pi], fmt.Sprintf("Sym%dX", pi)))
			g.Add(jen.Switch().Block(jen.Case(jen.Lit(1)).Block(nil), jen.Default().Block()))
			groups = append(groups, g)
		})
	}
	{
		pi := rnd.Intn(len(c08Paths))
		usedPaths = append(usedPaths, pi)
		f.Add(c08Stmt(rnd, pi, &usedPaths))
	}
	referenced := map[string]bool{}
	render := func(fn func(buf *bytes.Buffer) error) (string, string) {
		buf := &bytes.Buffer{}
		var err error
		if p, what := mon.Guard(func() { err = fn(buf) }); p {
			return "", "panic: " + what
		}
		if err != nil {
			return "", "error: " + mon.Trunc(err.Error(), 400)
		}
		return buf.String(), ""
	}
	nops := 4 + rnd.Intn(17)
	for op := 0; op < nops; op++ {
		var e hEvent
		var target jen.Code
		failing := func(fn func(w io.Writer) error) (string, string) {
			var err error
			if p, what := mon.Guard(func() { err = fn(&monWriter{failAt: 1, mode: rnd.Intn(3)}) }); p {
				return "", "panic: " + what
			}
			if err == nil {
				return "", ""
			}
			return "", "error: " + mon.Trunc(err.Error(), 200)
		}
		viaGoString := func(fn func() string) (string, string) {
			var out string
			if p, what := mon.Guard(func() { out = fn() }); p {
				return "", "panic: " + mon.Trunc(what, 400)
			}
			return out, ""
		}
		switch k := rnd.Intn(14); {
		case k == 12: // a render that fails because the caller's writer fails
			switch rnd.Intn(3) {
			case 0:
				e.Op, e.Via = "FileRender", "failing-writer"
				_, e.Err = failing(func(w io.Writer) error { return f.Render(w) })
			case 1:
				e.Op, e.Via, e.Target = "StmtRender", "failing-writer", rnd.Intn(len(frags))
				fr := frags[e.Target]
				_, e.Err = failing(func(w io.Writer) error { return fr.RenderWithFile(w, f) })
			default:
				e.Op, e.Via, e.Target = "GroupRender", "failing-writer", rnd.Intn(len(groups))
				g := groups[e.Target]
				_, e.Err = failing(func(w io.Writer) error { return g.RenderWithFile(w, f) })
			}
		case k == 11 && rnd.Intn(3) == 0: // a cgo preamble added late (possibly after "C" was already rendered in the common block)
			pre := []string{"#include <a.h>", "#include <b.h>\nvoid f() {}\n", "", " "}[rnd.Intn(4)]
			e.Op, e.Arg = "CgoPreamble", strconv.Quote(pre)
			f.CgoPreamble(pre)
		case k == 13: // File.GoString: one more way in which names appear in an output produced with the File
			e.Op, e.Via = "FileRender", "GoString"
			e.Out, e.Err = viaGoString(func() string { return f.GoString() })
			e.Out2 = e.Out
		case k < 4:
			e.Op = "FileRender"
			target = f
			before := dumpTree(f)
			e.Out, e.Err = render(func(b *bytes.Buffer) error { return f.Render(b) })
			if hooksAvailable && dumpTree(f) != before {
				run.treeDiffs++
			}
			e.Out2, e.Err2 = render(func(b *bytes.Buffer) error { return f.Render(b) })
		case k < 6:
			e.Op = "StmtRender"
			e.Target = rnd.Intn(len(frags))
			fr := frags[e.Target]
			target = fr
			e.Out, e.Err = render(func(b *bytes.Buffer) error { return fr.RenderWithFile(b, f) })
			e.Out2, e.Err2 = render(func(b *bytes.Buffer) error { return fr.RenderWithFile(b, f) })
		case k < 7:
			e.Op = "GroupRender"
			e.Target = rnd.Intn(len(groups))
			g := groups[e.Target]
			target = g
			e.Out, e.Err = render(func(b *bytes.Buffer) error { return g.RenderWithFile(b, f) })
			e.Out2, e.Err2 = render(func(b *bytes.Buffer) error { return g.RenderWithFile(b, f) })
		case k < 9:
			pi := rnd.Intn(len(c08Paths))
			if len(anonPending) > 0 && rnd.Intn(2) == 0 {
				// refer to a path that was blank-imported earlier and that nothing referred to so far
				j := rnd.Intn(len(anonPending))
				pi = anonPending[j]
				anonPending = append(anonPending[:j], anonPending[j+1:]...)
			}
			e.Op, e.Arg = "Add", c08Paths[pi]
			usedPaths = append(usedPaths, pi)
			f.Add(c08Stmt(rnd, pi, &usedPaths))
		case k < 11:
			pi := rnd.Intn(len(c08Paths))
			if len(usedPaths) > 0 && rnd.Intn(5) < 3 {
				pi = usedPaths[rnd.Intn(len(usedPaths))] // hints for paths the history already refers to
			}
			if rnd.Intn(4) == 0 {
				pj := rnd.Intn(len(c08Paths))
				e.Op, e.Arg = "ImportNames", c08Paths[pi]+","+c08Paths[pj]
				f.ImportNames(map[string]string{c08Paths[pi]: "nm" + strconv.Itoa(pi), c08Paths[pj]: "nm" + strconv.Itoa(pj)})
			} else if rnd.Intn(3) == 0 {
				e.Op, e.Arg = "ImportName", c08Paths[pi]+" nm"+strconv.Itoa(pi)
				f.ImportName(c08Paths[pi], "nm"+strconv.Itoa(pi))
			} else {
				a := c08Aliases[rnd.Intn(len(c08Aliases))]
				if rnd.Intn(4) == 0 {
					a = "."
				}
				e.Op, e.Arg = "ImportAlias", c08Paths[pi]+" "+a
				f.ImportAlias(c08Paths[pi], a)
			}
		case k < 12 && rnd.Intn(2) == 0:
			p := fmt.Sprintf("anon.only/p%d", rnd.Intn(4))
			if rnd.Intn(2) == 0 {
				// a path of the pool that nothing built so far refers to: it may be referenced later (Anon first,
				// reference afterwards is inside the statement; only Anon on an already referenced path is excluded)
				var free []int
				for pi, cp := range c08Paths {
					isUsed := cp == "C" || cp == "my/local"
					for _, u := range usedPaths {
						isUsed = isUsed || u == pi
					}
					if !isUsed {
						free = append(free, pi)
					}
				}
				if len(free) > 0 {
					fi := free[rnd.Intn(len(free))]
					p = c08Paths[fi]
					anonPending = append(anonPending, fi)
				}
			}
			e.Op, e.Arg = "Anon", p
			f.Anon(p) // never a path that is referenced (excluded by the statement)
		default:
			e.Op = "Prefix"
			if f.PackagePrefix == "" {
				f.PackagePrefix = "pk"
			} else {
				f.PackagePrefix = ""
			}
			e.Arg = f.PackagePrefix
		}
		_ = target
		_ = referenced
		if strings.HasSuffix(e.Op, "Render") && e.Err == "" && e.Via != "failing-writer" {
			e.Quals, e.Multi = extractQuals(e.Out)
			if e.Op == "FileRender" {
				specs, dups, err := extractSpecs(e.Out)
				if err != nil {
					e.Err = "import block of the output does not parse: " + err.Error()
				}
				e.Specs, e.DupImp = specs, dups
			}
		}
		run.evs = append(run.evs, e)
		if e.Err != "" && e.Via != "failing-writer" {
			break // a failed render ends the history (it is reported by the checker)
		}
	}
	return run
}

func histDesc(evs []hEvent) string {
	var sb strings.Builder
	for _, e := range evs {
		switch e.Op {
		case "FileRender":
			sb.WriteString("R" + map[string]string{"": "", "GoString": "(GoString)", "failing-writer": "(failing writer)"}[e.Via] + " ")
		case "StmtRender":
			fmt.Fprintf(&sb, "S%d ", e.Target)
		case "GroupRender":
			fmt.Fprintf(&sb, "G%d ", e.Target)
		default:
			fmt.Fprintf(&sb, "%s(%s) ", e.Op, e.Arg)
		}
	}
	return sb.String()
}

func c08Case(r *mon.Run, idx int64) {
	rnd := r.Rand("C08/history", idx)
	run := c08Execute(rnd)
	c := mon.Case{Gen: "history", Seed: r.Seed, Index: idx}
	probs := checkHistory(run.evs, run.local)
	desc := histDesc(run.evs)
	for _, p := range probs {
		class := "history"
		switch {
		case strings.Contains(p, "[repeat]"):
			class = "repeat-render-differs"
		case strings.Contains(p, "[monotone]"):
			class = "name-not-stable"
		case strings.Contains(p, "[declared]"):
			class = "import-not-declared"
		case strings.Contains(p, "render failed"):
			class = "render-failed"
		}
		r.Violate(class, c, "%s\nhistory: %s", p, desc)
	}
	if r.Verbose {
		fmt.Printf("history: %s\nproblems: %d\n", desc, len(probs))
		for i, e := range run.evs {
			fmt.Printf("--- event %d %s %s err=%q quals=%v specs=%v\n%s\n", i, e.Op, e.Arg, e.Err, e.Quals, e.Specs, e.Out)
		}
	}
	renders, hintsAfter := 0, 0
	rendered := false
	for _, e := range run.evs {
		if strings.HasSuffix(e.Op, "Render") {
			renders++
			rendered = true
		} else if rendered && (e.Op == "ImportAlias" || e.Op == "ImportName") {
			hintsAfter++
		}
		r.Count("ops."+e.Op, 1)
	}
	r.Eval(desc, renders >= 2)
	r.Count("renders(each done twice)", int64(renders))
	r.Count("hints_after_first_render", int64(hintsAfter))
	if hooksAvailable {
		r.Count("hook.file_renders_that_changed_the_tree_dump", int64(run.treeDiffs))
	}
	if idx < 3 {
		r.Sample(map[string]interface{}{"history": desc})
	}
}

func runC08(r *mon.Run) {
	r.SetRule("random histories of 4-20 operations over one File (File.Render, File.GoString, Statement.RenderWithFile, Group.RenderWithFile — each render performed twice in a row —, renders whose writer fails on purpose, adding statements, ImportName/ImportNames/ImportAlias incl. '.', for fresh and already rendered paths, Anon of paths nothing refers to yet (some are referenced by later additions), PackagePrefix toggles); Files with/without local path, prefix, NoFormat; statements with case blocks (empty/nil bodies), Dicts, Tags, nil items; judged offline on the recorded event log: repeat-equal, name-monotone, declared. non-trivial = history with >=2 renders; distinct by operation sequence")
	r.Assume("Anon on an already referenced path is excluded (as the statement says)")
	c08NegControls(r)
	n := r.Pick(3000, 100000)
	mon.Parallel(n, func(i int) { c08Case(r, int64(i)) })
}

func replayC08(r *mon.Run, c mon.Case) { c08Case(r, c.Index) }

func c08NegControls(r *mon.Run) {
	// a clean recorded history …
	var base *c08Run
	for s := int64(0); s < 200 && base == nil; s++ {
		run := c08Execute(rand.New(rand.NewSource(1000 + s)))
		nr := 0
		for _, e := range run.evs {
			if e.Op == "FileRender" && e.Via == "" && len(e.Quals) > 0 {
				nr++
			}
		}
		// … in which the last file render shows a path that an earlier render showed too (the controls alter it)
		repeated := false
		last := -1
		for i, e := range run.evs {
			if e.Op == "FileRender" && e.Via == "" && len(e.Quals) > 0 {
				last = i
			}
		}
		if last >= 0 {
			for k := range run.evs[last].Quals {
				for j := 0; j < last; j++ {
					if _, ok := run.evs[j].Quals[k]; ok {
						repeated = true
					}
				}
			}
		}
		if nr >= 2 && repeated && len(checkHistory(run.evs, run.local)) == 0 {
			base = run
		}
	}
	if base == nil {
		r.Inconclusive("no clean history with two file renders found for the negative controls (the tree may violate C08 everywhere)")
		return
	}
	clone := func() []hEvent {
		out := make([]hEvent, len(base.evs))
		copy(out, base.evs)
		for i := range out {
			q := map[int]string{}
			for k, v := range out[i].Quals {
				q[k] = v
			}
			out[i].Quals = q
			sp := map[string]string{}
			for k, v := range out[i].Specs {
				sp[k] = v
			}
			out[i].Specs = sp
		}
		return out
	}
	lastRender := func(evs []hEvent) int {
		for i := len(evs) - 1; i >= 0; i-- {
			if evs[i].Op == "FileRender" && evs[i].Via == "" && len(evs[i].Quals) > 0 {
				return i
			}
		}
		return -1
	}
	judge := func(evs []hEvent) {
		for _, p := range checkHistory(evs, base.local) {
			r.Violate("negctl", mon.Case{Gen: "negctl"}, "%s", p)
		}
	}
	r.NegControl("second-render-output-swapped", func() {
		evs := clone()
		i := lastRender(evs)
		evs[i].Out2 = evs[i].Out + "// changed\n"
		judge(evs)
	})
	r.NegControl("qualifier-changed-later", func() {
		evs := clone()
		i := lastRender(evs)
		// a path that an earlier render already showed (smallest index: no dependence on map order); if there is
		// none, the smallest path of this render
		pick := -1
		for k := range evs[i].Quals {
			earlier := false
			for j := 0; j < i; j++ {
				if _, ok := evs[j].Quals[k]; ok {
					earlier = true
				}
			}
			if earlier && (pick < 0 || k < pick) {
				pick = k
			}
		}
		if pick < 0 {
			for k := range evs[i].Quals {
				if pick < 0 || k < pick {
					pick = k
				}
			}
		}
		evs[i].Quals[pick] = evs[i].Quals[pick] + "9"
		judge(evs)
	})
	r.NegControl("import-spec-dropped", func() {
		evs := clone()
		i := lastRender(evs)
		for k := range evs[i].Quals {
			if c08Paths[k] != base.local {
				delete(evs[i].Specs, c08Paths[k])
			}
		}
		judge(evs)
	})
}
