package main

import "encoding/json"

func jsonUnmarshal(b []byte, v interface{}) error { return json.Unmarshal(b, v) }
