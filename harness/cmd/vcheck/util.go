package main

import (
	"encoding/json"
	"go/format"
	"os"
)

func jsonUnmarshal(b []byte, v interface{}) error { return json.Unmarshal(b, v) }

func formatSource(src []byte) ([]byte, error) { return format.Source(src) }

// repoDir is the tree under test: /repo, unless the tooling points the monitors at a scratch copy.
func repoDir() string {
	if d := os.Getenv("VERIF_REPO"); d != "" {
		return d
	}
	return "/repo"
}
