package main

import (
	"encoding/json"
	"go/format"
)

func jsonUnmarshal(b []byte, v interface{}) error { return json.Unmarshal(b, v) }

func formatSource(src []byte) ([]byte, error) { return format.Source(src) }
