package main

import (
	"sync/atomic"
	"path/filepath"
	"os"
	"fmt"

	"verifharness/a2j"
	"verifharness/mon"
)

// C01: faithful rendering. Every file of the corpora is transcribed into DSL calls (a2j), rendered by the
// real code, re-parsed, and compared declaration by declaration with the source AST (O1).

func init() {
	register("C01", "exploration", runC01, replayC01)
}

var c01SaveSeq int64

func c01Case(r *mon.Run, ci corpusItem) {
	name, src := ci.source()
	c := mon.Case{Gen: "file", Seed: r.Seed, Extra: mon.J(ci)}
	if len(src) == 0 {
		r.Count("skip.generated program does not parse", 1)
		return
	}
	b := a2j.Build(name, src, a2j.Roots(), ci.Seed, a2j.Knobs{Clones: ci.Seed&1 == 1})
	if b.Skip != "" {
		r.Count("skip."+b.Skip, 1)
		return
	}
	if b.Panic != "" {
		r.Violate("build-panic", c, "building %s panicked: %s", shortPath(name), mon.Trunc(b.Panic, 1500))
		return
	}
	out, errT, panicT := b.Render()
	switch {
	case panicT != "":
		r.Violate("render-panic", c, "rendering %s panicked: %s", shortPath(name), panicT)
	case errT != "":
		r.Violate("render-error", c, "rendering %s failed: %s", shortPath(name), errT)
	default:
		if diff := b.Compare(out); diff != "" {
			r.Violate("ast-differs", c, "%s: %s", shortPath(name), diff)
			if r.Verbose {
				fmt.Printf("--- rendered output ---\n%s\n", out)
			}
		} else if ci.Seed&7 == 3 {
			// the other way of rendering a File: Save, here over an older and longer version of the same file (a
			// generator re-run after a declaration was dropped); what is on disk must be the same program
			dir := filepath.Join(mon.VerifDir, "bin", fmt.Sprintf("c01-save-%d", os.Getpid()))
			os.MkdirAll(dir, 0o755)
			path := filepath.Join(dir, fmt.Sprintf("f%d.go", atomic.AddInt64(&c01SaveSeq, 1)))
			os.WriteFile(path, append(append([]byte(nil), out...), []byte("\n// Leftover is what an earlier run generated.\nfunc leftoverOfAnEarlierRunQ() {}\n")...), 0o644)
			var serr error
			if p, what := mon.Guard(func() { serr = b.File.Save(path) }); p || serr != nil {
				r.Violate("render-error", c, "%s: Render succeeds but Save fails: %v %s", shortPath(name), serr, what)
			} else if saved, rerr := os.ReadFile(path); rerr != nil {
				r.Inconclusive("cannot read back a saved file: " + rerr.Error())
			} else if diff := b.Compare(saved); diff != "" {
				r.Violate("ast-differs", c, "%s: the file written by Save over an older, longer version is not the program: %s", shortPath(name), diff)
			}
			os.Remove(path)
			r.Count("files_also_saved_over_an_older_version", 1)
		}
	}
	r.Eval(name+fmt.Sprint(ci.Seed), len(b.OrigDecls) > 0)
	r.Count("files_translated", 1)
	r.Count("declarations", int64(len(b.OrigDecls)))
	if ci.Path == "" {
		r.Count("generated_programs", 1)
	}
	mergeStats(r, b.Tr.Stats)
	if r.WantSample() && len(b.OrigDecls) > 2 {
		r.Sample(map[string]interface{}{"file": shortPath(name), "declarations": len(b.OrigDecls), "translator_seed": ci.Seed})
	}
}

func runC01(r *mon.Run) {
	r.SetRule("every .go file of the corpora (quick: vendored corpus 589 files + /repo + seeded sample of 1,500 files of GOROOT/src + 400 generated programs; thorough: vendored + /repo + all of GOROOT/src + go1.26 src + module cache, two translator seeds, + 6,000 generated programs) is transcribed with the documented DSL element per construct (random choice among equivalent documented spellings; for odd translator seeds one expression in ten is kept as a template whose Clone is used while a sibling Clone is extended afterwards), rendered, re-parsed and compared with the source AST; one file in eight is also written with Save over an older, longer version of itself and read back. non-trivial = translated file with >=1 declaration; distinct by (file, translator seed). Skipped inputs are counted by reason under observed.skip.*")
	r.Assume("inputs outside the translator's domain are skipped, never judged: unparsable files, dot imports, a path imported twice, unresolvable package names, import names C05 obliges jennifer to replace, imports never used through a selector")
	r.Assume("normalisations are limited to what the statement exempts (comments, layout, redundant parentheses, empty statements removed by gofmt) and to Dict's documented reordering of keyed literals")
	c01NegControls(r)
	items := corpusList(r, "C01", 1500, 400, 6000, 2)
	mon.Parallel(len(items), func(i int) { c01Case(r, items[i]) })
	os.RemoveAll(filepath.Join(mon.VerifDir, "bin", fmt.Sprintf("c01-save-%d", os.Getpid())))
}

func replayC01(r *mon.Run, c mon.Case) {
	var ci corpusItem
	if err := jsonUnmarshal(c.Extra, &ci); err == nil {
		c01Case(r, ci)
	}
}

func c01NegControls(r *mon.Run) {
	src := []byte("package p\n\nimport \"fmt\"\n\nfunc f(a, b int) int {\n\tfor i := 0; i < a; i++ {\n\t\tfmt.Println(a[1:b], b)\n\t}\n\tswitch {\n\tcase a > b:\n\t\treturn a\n\tdefault:\n\t}\n\treturn a + b*2\n}\n")
	b := a2j.Build("negctl.go", src, a2j.Roots(), 1, a2j.Knobs{})
	if b.Skip != "" || b.Panic != "" {
		r.Inconclusive("negative-control program does not translate: " + b.Skip + b.Panic)
		return
	}
	ctl := func(name, altered string) {
		r.NegControl(name, func() {
			if d := b.Compare([]byte(altered)); d != "" {
				r.Violate("negctl", mon.Case{Gen: "negctl"}, "%s", d)
			}
		})
	}
	good := "package p\n\nimport \"fmt\"\n\nfunc f(a, b int) int {\n\tfor i := 0; i < a; i++ {\n\t\tfmt.Println(a[1:b], b)\n\t}\n\tswitch {\n\tcase a > b:\n\t\treturn a\n\tdefault:\n\t}\n\treturn a + b*2\n}\n"
	r.NegControl("sanity-inverse", func() {
		if b.Compare([]byte(good)) == "" {
			r.Violate("negctl", mon.Case{Gen: "negctl"}, "accepted (expected)")
		}
	})
	ctl("operator-changed", replaceOnce(good, "a + b*2", "a + b + 2"))
	ctl("precedence-changed", replaceOnce(good, "a + b*2", "(a + b) * 2"))
	ctl("slice-bound-dropped", replaceOnce(good, "a[1:b]", "a[:b]"))
	ctl("for-post-dropped", replaceOnce(good, "i < a; i++", "i < a; "))
	ctl("case-became-default", replaceOnce(good, "case a > b:", "case b:"))
	ctl("import-aliased", replaceOnce(replaceOnce(good, "\"fmt\"", "fmt1 \"fmt\""), "fmt.Println", "fmt1.Println"))
	ctl("literal-changed", replaceOnce(good, "i := 0", "i := 1"))
	ctl("argument-dropped", replaceOnce(good, "a[1:b], b)", "a[1:b])"))
}

func replaceOnce(s, old, new string) string {
	i := indexOf(s, old)
	if i < 0 {
		return s
	}
	return s[:i] + new + s[i+len(old):]
}

func indexOf(s, sub string) int {
	for i := 0; i+len(sub) <= len(s); i++ {
		if s[i:i+len(sub)] == sub {
			return i
		}
	}
	return -1
}
