package main

import (
	"math"
	"io"
	"bufio"
	"crypto/sha256"
	"encoding/hex"
	"fmt"
	"math/rand"
	"os"
	"os/exec"
	"strconv"
	"strings"
	"sync"

	"github.com/dave/jennifer/jen"

	"verifharness/mon"
	"verifharness/scen"
)

// C07: the same construction renders the same bytes, within a process (K fresh builds) and across
// processes (P children, each with its own map hash seed).

func init() {
	register("C07", "exploration", runC07, replayC07)
	children["c07"] = c07Child
}

const c07Kinds = 8

var collidePaths = []string{"a.b/x", "c.d/x", "e.f/x", "g.h/x", "i.j/X", "k.l/x/", "m.n/y", "o.p/y", "fmt", "x.y/fmt", "math/rand", "crypto/rand"}

// c07Recipe builds the File of recipe (kind, seed) by a sequence of calls that is a pure function of
// its arguments. It returns the size of the smallest map involved and a short description.
func c07Recipe(kind int, seed int64, rec *visitRec) (f *jen.File, smallest int, desc string) {
	f, smallest, desc = c07RecipeFormatted(kind, seed, rec)
	if uint64(seed)%3 == 0 {
		// gofmt sorts import blocks and aligns composite literals on its own, which can hide an order that
		// jennifer left to chance: a third of the recipes are rendered raw
		f.NoFormat = true
		desc += " (NoFormat)"
	}
	return
}

func c07RecipeFormatted(kind int, seed int64, rec *visitRec) (f *jen.File, smallest int, desc string) {
	r := rand.New(rand.NewSource(seed))
	switch kind {
	case 0: // Dict whose keys/values contain qualified identifiers competing for aliases
		f = jen.NewFile("p")
		if r.Intn(3) == 0 {
			f.PackagePrefix = "pk"
		}
		if r.Intn(4) == 0 {
			// every path the Dict mentions was imported blank before (the blank entries are upgraded while the
			// Dict renders; the import table does not grow)
			ps := []string{collidePaths[r.Intn(4)], collidePaths[r.Intn(4)], collidePaths[r.Intn(4)]}
			f.Anon(ps...)
			d := jen.Dict{}
			for i, p := range ps {
				d[jen.Qual(p, fmt.Sprintf("K%d", i))] = jen.Lit(i)
			}
			f.Var().Id("m").Op("=").Map(jen.Int()).Int().Values(d)
			return f, len(d), fmt.Sprintf("dict-over-blank-imports%v", ps)
		}
		if r.Intn(3) == 0 {
			// blank imports of paths that the Dict then refers to by name (the blank entry is upgraded)
			f.Anon(collidePaths[r.Intn(4)], collidePaths[r.Intn(4)], collidePaths[4+r.Intn(4)])
		}
		n := 2 + r.Intn(5)
		if r.Intn(5) == 0 {
			n = 7 + r.Intn(30)
		}
		d := jen.Dict{}
		var parts []string
		for i := 0; i < n; i++ {
			p1 := collidePaths[r.Intn(len(collidePaths))]
			p2 := collidePaths[r.Intn(len(collidePaths))]
			var k jen.Code
			switch r.Intn(4) {
			case 0:
				k = jen.Qual(p1, "A").Op("+").Qual(p2, "B")
				parts = append(parts, fmt.Sprintf("%s.A+%s.B", p1, p2))
			case 1:
				k = jen.Id("a").Index(jen.Qual(p1, fmt.Sprintf("Z%d", i)))
				parts = append(parts, fmt.Sprintf("a[%s.Z%d]", p1, i))
			default:
				k = jen.Qual(p1, fmt.Sprintf("K%d", r.Intn(3)))
				parts = append(parts, p1+".K")
			}
			if rec != nil && hooksAvailable {
				i := i
				k = newProbe(i, k, func(int) {
					rec.mu.Lock()
					rec.cur = append(rec.cur, strconv.Itoa(i))
					rec.mu.Unlock()
				}, nil)
			}
			if r.Intn(3) == 0 {
				d[k] = jen.Qual(p2, "V")
			} else {
				d[k] = jen.Lit(r.Intn(3))
			}
		}
		f.Var().Id("m").Op("=").Map(jen.Int()).Int().Values(d)
		for i := 0; i < 3; i++ {
			f.Var().Id(fmt.Sprintf("after%d", i)).Op("=").Qual(collidePaths[r.Intn(len(collidePaths))], "W")
		}
		return f, n, "dict-qual{" + strings.Join(parts, ", ") + "}"
	case 1: // struct tags
		f = jen.NewFile("p")
		smallest = 99
		var ds []string
		f.Type().Id("T").StructFunc(func(g *jen.Group) {
			for i, n := 0, 1+r.Intn(6); i < n; i++ {
				m := map[string]string{}
				nk := 2 + r.Intn(7)
				for j := 0; j < nk; j++ {
					key := fmt.Sprintf("k%d", r.Intn(20))
					if r.Intn(3) == 0 {
						key = []string{"json", "JSON", "Json", "xml", "XML", "Xml", "a", "A", "ab", "aB", "Ab", "AB", " json", "json ", "\tjson", " a", "a ", "a\n"}[r.Intn(18)]
					}
					m[key] = []string{"a", "b`", "c\"", ""}[r.Intn(4)]
				}
				if len(m) < smallest {
					smallest = len(m)
				}
				ds = append(ds, fmt.Sprint(len(m)))
				g.Id(fmt.Sprintf("F%d", i)).Int().Tag(m)
			}
		})
		// values that compare equal but render differently (+0 and -0), in an order that depends on the recipe: what
		// one of them renders as must not depend on which was rendered first in this process
		zeros := []jen.Code{jen.Lit(0.0), jen.Lit(math.Copysign(0, -1)), jen.Lit(float32(0)), jen.Lit(float32(math.Copysign(0, -1))), jen.Lit(complex(0, math.Copysign(0, -1)))}
		r.Shuffle(len(zeros), func(i, j int) { zeros[i], zeros[j] = zeros[j], zeros[i] })
		f.Var().Id("zeros").Op("=").Index().Interface().Values(zeros...)
		return f, smallest, "tags[" + strings.Join(ds, ",") + " keys]+zeros"
	case 2: // ImportNames / Anon tables and the import block
		f = jen.NewFile("p")
		if r.Intn(3) == 0 {
			f.PackagePrefix = "pk"
		}
		n := 2 + r.Intn(29)
		if r.Intn(2) == 0 {
			n = 2 + r.Intn(6) // small import blocks: every size 2..7 is common
		}
		m := map[string]string{}
		var paths []string
		for i := 0; i < n; i++ {
			p := fmt.Sprintf("%s/%s%d", []string{"a.b", "c.d", "e.f"}[r.Intn(3)], []string{"x", "y", "z"}[r.Intn(3)], r.Intn(4))
			paths = append(paths, p)
			if r.Intn(2) == 0 {
				m[p] = []string{"x", "y", "z", "nm"}[r.Intn(4)]
			}
		}
		if r.Intn(3) == 0 {
			// the table also lists vendored copies of some of the paths (go list reports them), under other names:
			// they are hints for other paths, and have no say in how the paths used here are called
			for i, p := range paths {
				if i%2 == 0 {
					m["x.y/app/vendor/"+p] = fmt.Sprintf("va%d", i)
					m["x.y/tool/vendor/"+p] = fmt.Sprintf("vb%d", i)
				}
			}
		}
		f.ImportNames(m)
		for i, p := range paths {
			switch r.Intn(4) {
			case 0:
				f.Anon(p)
			default:
				f.Var().Id(fmt.Sprintf("v%d", i)).Op("=").Qual(p, "S")
			}
		}
		small := len(m)
		if n < small || small < 2 {
			small = n
		}
		if r.Intn(4) == 0 {
			// the File was rendered before under another PackagePrefix (a setting changed between two uses): the names
			// handed out then stay, and nothing may depend on the order in which the table is walked
			old := f.PackagePrefix
			f.PackagePrefix = map[bool]string{true: "", false: "old"}[old == "old"]
			f.Render(io.Discard)
			f.PackagePrefix = []string{"pk", "qq", ""}[r.Intn(3)]
			return f, small, fmt.Sprintf("importnames[%d hints, %d paths] rendered once under another prefix before", len(m), n)
		}
		return f, small, fmt.Sprintf("importnames[%d hints, %d paths]", len(m), n)
	case 3: // import scenarios (hints in maps, Dict contexts, dot imports…)
		k := scen.DefaultKnobs()
		k.MaxPaths = 12
		s := scen.Generate(r, k)
		return s.Build(), len(s.Paths), "scenario " + mon.Trunc(s.String(), 300)
	case 4: // Dicts of the C16 generator (duplicates, null sides)
		ps := genDict(r)
		return buildDictFile(ps, r.Intn(2) == 0, r.Intn(2) == 0, rec), len(ps), dictDesc(ps)
	case 6: // nested Dicts whose keys render identically (different values), under outer pairs that only differ
		// inside the nested Dict, followed by references that compete for aliases
		f = jen.NewFile("p")
		inner := func(vals ...int) jen.Code {
			d := jen.Dict{}
			for _, v := range vals {
				d[jen.Id("k").Call()] = jen.Lit(v) // distinct Code values, same key text
			}
			return jen.Id("M").Values(d)
		}
		if r.Intn(2) == 0 {
			// pairs with identical keys whose values differ only in the package they come from, the two packages
			// having the same name (their order must not follow map iteration either) — with and without earlier
			// references that fix the names of the two packages
			pr := [][2]string{{"math/rand", "crypto/rand"}, {"text/template", "html/template"}, {"a.b/x", "c.d/x"}, {"crypto/rand", "a.b/rand"}}[r.Intn(4)]
			if r.Intn(3) > 0 {
				f.Var().Id("e1").Op("=").Qual(pr[0], "E")
				f.Var().Id("e2").Op("=").Qual(pr[1], "E")
			}
			f.Var().Id("tw").Op("=").Id("M").Values(jen.Dict{jen.Id("k").Call(): jen.Qual(pr[0], "V"), jen.Id("k").Call(): jen.Qual(pr[1], "V"), jen.Id("k").Call(): jen.Qual(pr[1], "V").Call()})
		}
		outer := jen.Dict{}
		n := 2 + r.Intn(3)
		for i := 0; i < n; i++ {
			if r.Intn(2) == 0 {
				outer[jen.Id("o").Call()] = inner(1, 2+i, 1+r.Intn(3))
			} else {
				outer[inner(1, 2+i)] = jen.Qual(collidePaths[r.Intn(4)], "V")
			}
		}
		f.Var().Id("a").Op("=").Id("MM").Values(outer)
		for i := 0; i < 3; i++ {
			f.Var().Id(fmt.Sprintf("after%d", i)).Op("=").Qual(collidePaths[r.Intn(6)], "W")
		}
		// a hint table that lists one path with and without a trailing slash under different names
		if r.Intn(2) == 0 {
			f.ImportNames(map[string]string{"t.s/store": "store", "t.s/store/": "storage", "u.v/w": "w"})
			f.Var().Id("s1").Op("=").Qual("t.s/store", "Open")
			f.Var().Id("s2").Op("=").Qual("t.s/store/", "Open")
		}
		return f, 2, "nested-dicts-with-identical-inner-keys"
	case 5: // Dicts whose colliding qualified keys carry nested Dicts with colliding qualified keys
		f = jen.NewFile("p")
		inner := func() jen.Dict {
			d := jen.Dict{}
			for i, n := 0, 2+r.Intn(4); i < n; i++ {
				d[jen.Qual(collidePaths[r.Intn(len(collidePaths))], fmt.Sprintf("I%d", r.Intn(4)))] = jen.Qual(collidePaths[r.Intn(len(collidePaths))], fmt.Sprintf("J%d", r.Intn(4)))
			}
			return d
		}
		outer := jen.Dict{}
		n := 2 + r.Intn(4)
		for i := 0; i < n; i++ {
			k := jen.Qual(collidePaths[r.Intn(len(collidePaths))], fmt.Sprintf("K%d", i))
			switch r.Intn(3) {
			case 0:
				outer[k] = jen.Id("M").Values(inner())
			case 1:
				outer[jen.Id("T").Values(inner())] = jen.Id("M").Values(inner())
			default:
				outer[k] = jen.Qual(collidePaths[r.Intn(len(collidePaths))], "V")
			}
		}
		f.Var().Id("a").Op("=").Id("MM").Values(outer)
		return f, n, "nested-dicts-with-colliding-quals"
	default: // nested Dicts and Dicts in several statements sharing aliases
		f = jen.NewFile("p")
		mk := func(depth int) jen.Dict {
			d := jen.Dict{}
			for i, n := 0, 2+r.Intn(3); i < n; i++ {
				d[jen.Qual(collidePaths[r.Intn(len(collidePaths))], fmt.Sprintf("K%d", i))] = jen.Qual(collidePaths[r.Intn(len(collidePaths))], "V")
			}
			return d
		}
		outer := jen.Dict{}
		for i, n := 0, 2+r.Intn(3); i < n; i++ {
			outer[jen.Lit(i)] = jen.Id("M").Values(mk(1))
		}
		f.Var().Id("a").Op("=").Id("MM").Values(outer)
		f.Var().Id("b").Op("=").Id("M").Values(mk(0))
		return f, 2, "nested-dicts"
	}
}

func hashFile(f *jen.File) string {
	src, fail := renderFile(f)
	if fail != "" {
		return "FAIL:" + mon.Trunc(fail, 200)
	}
	h := sha256.Sum256(src)
	return hex.EncodeToString(h[:8])
}

func c07Case(r *mon.Run, idx int64, childHashes []map[int64]string) {
	kind := int(idx % c07Kinds)
	seed := mon.DeriveSeed(r.Seed, "C07/recipe", idx)
	c := mon.Case{Gen: "recipe", Seed: r.Seed, Index: idx}
	rec := &visitRec{orders: map[string]bool{}}
	f0, smallest, desc := c07Recipe(kind, seed, rec)
	k := 32
	if smallest <= 3 {
		k = 96
	}
	outs := map[string]int{}
	var firstOut string
	note := func(f *jen.File) {
		src, fail := renderFile(f)
		key := string(src)
		if fail != "" {
			key = "FAIL:" + fail
		}
		if len(outs) == 0 {
			firstOut = key
		}
		outs[key]++
		rec.mu.Lock()
		if len(rec.cur) > 0 {
			n := len(rec.cur)
			if smallest > 0 && n > smallest {
				n = smallest
			}
			rec.orders[strings.Join(rec.cur[:n], ",")] = true
		}
		rec.cur = nil
		rec.mu.Unlock()
	}
	note(f0)
	for i := 1; i < k; i++ {
		f, _, _ := c07Recipe(kind, seed, rec)
		note(f)
	}
	if len(outs) > 1 {
		var other string
		for o := range outs {
			if o != firstOut {
				other = o
				break
			}
		}
		r.Violate("nondeterministic-in-process", c, "%d fresh builds of one recipe gave %d different outputs\nrecipe: %s\n--- one output ---\n%s\n--- another ---\n%s", k, len(outs), desc, firstOut, other)
	}
	h := sha256.Sum256([]byte(firstOut))
	mine := hex.EncodeToString(h[:8])
	if strings.HasPrefix(firstOut, "FAIL:") {
		mine = mon.Trunc(firstOut, 205)
	}
	for pi, ch := range childHashes {
		if got, ok := ch[idx]; ok && got != mine && len(outs) == 1 {
			r.Violate("nondeterministic-across-processes", c, "child process %d rendered recipe differently (hash %s vs %s)\nrecipe: %s\n--- parent output ---\n%s", pi, got, mine, desc, firstOut)
		}
	}
	if r.Verbose {
		fmt.Printf("recipe kind=%d seed=%d: %s\n%d builds, %d distinct outputs, %d distinct visit orders\n--- output ---\n%s\n", kind, seed, desc, k, len(outs), len(rec.orders), firstOut)
	}
	r.Eval(desc, smallest >= 2)
	r.Count(fmt.Sprintf("recipes.kind%d", kind), 1)
	r.Count("builds", int64(k))
	if hooksAvailable && (kind == 0 || kind == 4) && smallest >= 2 {
		r.Count("probe.recipes_observed", 1)
		r.Count("probe.distinct_visit_orders_total", int64(len(rec.orders)))
		r.Max("probe.max_distinct_orders_for_one_recipe", int64(len(rec.orders)))
		if len(rec.orders) >= 2 {
			r.Count("probe.recipes_with_2plus_orders", 1)
		}
	}
	if idx < 2 {
		r.Sample(map[string]interface{}{"recipe": desc, "builds": k, "output": mon.Trunc(firstOut, 600)})
	}
}

func runC07(r *mon.Run) {
	r.SetRule("recipes (pure functions of a seed) rich in maps: Dicts whose keys/values hold qualified identifiers competing for aliases, nested Dicts, struct Tags of 2-8 keys, ImportNames/Anon tables with 2-30 imports, import scenarios, Dicts with render-identical keys; each recipe is built and rendered K=96 times (smallest map <=3 entries) or 32 times in-process and once in each of P child processes, each of which walks the recipes in an order of its own; non-trivial = smallest map has >=2 entries; distinct by recipe text")
	r.Assume("map iteration orders cannot be forced from outside; the evidence reports the orders jennifer's own loops were observed to take (probe keys)")
	n := r.Pick(300, 12000)
	procs := r.Pick(4, 16)
	// children first (they run in parallel with nothing else), then the in-process builds
	childHashes := make([]map[int64]string, procs)
	bin := os.Getenv("VERIF_BIN")
	if bin == "" {
		bin, _ = os.Executable()
	}
	var wg sync.WaitGroup
	var failed sync.Map
	for p := 0; p < procs; p++ {
		wg.Add(1)
		go func(p int) {
			defer wg.Done()
			cmd := exec.Command(bin, "--child", "c07", strconv.FormatInt(r.Seed, 10), strconv.Itoa(n), strconv.Itoa(p))
			cmd.Env = append(os.Environ(), "VERIF_CHILD=1")
			out, err := cmd.Output()
			if err != nil {
				failed.Store(p, err.Error())
				return
			}
			m := map[int64]string{}
			sc := bufio.NewScanner(strings.NewReader(string(out)))
			sc.Buffer(make([]byte, 1<<20), 1<<20)
			for sc.Scan() {
				parts := strings.SplitN(sc.Text(), " ", 2)
				if len(parts) == 2 {
					i, _ := strconv.ParseInt(parts[0], 10, 64)
					m[i] = parts[1]
				}
			}
			childHashes[p] = m
		}(p)
	}
	wg.Wait()
	nfail := 0
	failed.Range(func(k, v interface{}) bool { nfail++; return true })
	if nfail > 0 {
		r.Inconclusive(fmt.Sprintf("%d child processes failed to run", nfail))
	}
	r.Put("child_processes", procs-nfail)
	// negative control: a child result with one hash altered must be noticed
	r.NegControl("child-hash-altered", func() {
		fake := []map[int64]string{{0: "0000000000000000"}}
		c07Case(r, 0, fake)
	})
	mon.Parallel(n, func(i int) { c07Case(r, int64(i), childHashes) })
}

func replayC07(r *mon.Run, c mon.Case) { c07Case(r, c.Index, nil) }

func c07Child(args []string) {
	seed, _ := strconv.ParseInt(args[0], 10, 64)
	n, _ := strconv.Atoi(args[1])
	w := bufio.NewWriter(os.Stdout)
	defer w.Flush()
	// every child walks the recipes in an order of its own (child 0: as listed): what a recipe renders must not
	// depend on what the process rendered before
	order := make([]int, n)
	for i := range order {
		order[i] = i
	}
	if len(args) > 2 {
		if p, _ := strconv.Atoi(args[2]); p > 0 {
			order = rand.New(rand.NewSource(int64(p))).Perm(n)
		}
	}
	for _, i := range order {
		f, _, _ := c07Recipe(i%c07Kinds, mon.DeriveSeed(seed, "C07/recipe", int64(i)), nil)
		fmt.Fprintf(w, "%d %s\n", i, hashFile(f))
	}
}
