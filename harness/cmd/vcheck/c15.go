package main

import (
	"bytes"
	"fmt"
	"go/ast"
	"go/parser"
	"go/token"
	"math/rand"
	"regexp"
	"strconv"
	"strings"

	"github.com/dave/jennifer/jen"

	"verifharness/a2j"
	"verifharness/mon"
)

// C15: comments are contained and preserved; file-level comments are placed right.
// Part 1: comment injection into real programs (W1 with the comments knob): the code-token stream must be
// the one of the same program without comments, and every comment text must be one COMMENT token of the
// raw rendering in the documented style. Part 2: file-level scenarios (headers, package comments,
// canonical path) judged on ast.File.Doc and the comment groups of the parsed output.

func init() {
	register("C15", "exploration", runC15, replayC15)
}

func c15CorpusCase(r *mon.Run, ci corpusItem) {
	name, src := ci.source()
	c := mon.Case{Gen: "corpus", Seed: r.Seed, Extra: mon.J(ci)}
	if len(src) == 0 {
		return
	}
	plain := a2j.Build(name, src, a2j.Roots(), ci.Seed, a2j.Knobs{})
	if plain.Skip != "" || plain.Panic != "" {
		r.Count("corpus.skip", 1)
		return
	}
	pout, perr, ppanic := plain.Render()
	if perr != "" || ppanic != "" {
		r.Count("corpus.plain_render_failed(C01's business)", 1)
		return
	}
	// a third of the programs also get items that render nothing injected into every list (a comment next to a null
	// item, a commented item followed only by null items …)
	cm := a2j.Build(name, src, a2j.Roots(), ci.Seed, a2j.Knobs{Comments: true, Nulls: uint64(ci.Seed)%3 == 0})
	if cm.Panic != "" {
		r.Violate("comment-build-panic", c, "%s: %s", shortPath(name), mon.Trunc(cm.Panic, 600))
		return
	}
	n := len(cm.Tr.Comments)
	cout, cerr, cpanic := cm.Render()
	switch {
	case cpanic != "":
		r.Violate("comment-render-panic", c, "%s: rendering with %d comments panicked: %s", shortPath(name), n, cpanic)
		return
	case cerr != "":
		r.Violate("comment-breaks-code", c, "%s: rendering with %d comments failed (a comment swallowed or produced code): %s", shortPath(name), n, cerr)
		return
	}
	got, want := a2j.CodeTokens(cout), a2j.CodeTokens(pout)
	if len(got) != len(want) {
		r.Violate("comment-alters-tokens", c, "%s: %d comments change the number of code tokens from %d to %d", shortPath(name), n, len(want), len(got))
	} else {
		for i := range got {
			if got[i] != want[i] {
				r.Violate("comment-alters-tokens", c, "%s: code token %d is %q with comments and %q without", shortPath(name), i, got[i], want[i])
				break
			}
		}
	}
	// text preservation and style: judged on the raw rendering (gofmt rewrites doc comment text on its own)
	cm.File.NoFormat = true
	raw, rerr, rpanic := cm.Render()
	if rerr != "" || rpanic != "" {
		r.Violate("comment-render-panic", c, "%s: raw rendering failed: %s %s", shortPath(name), rerr, rpanic)
		return
	}
	toks := a2j.CommentTokens(raw)
	total := 0
	for _, k := range toks {
		total += k
	}
	for _, tx := range cm.Tr.Comments {
		if toks[a2j.ExpectedComment(tx)] < 1 {
			r.Violate("comment-text-lost", c, "%s: comment text %q is not one comment token %q of the raw rendering", shortPath(name), tx, a2j.ExpectedComment(tx))
			break
		}
	}
	// the program's own comments (the cgo preamble is the only kind the translation keeps) are there without any
	// injection: they are counted on the raw rendering of the build without injected comments
	base := 0
	plain.File.NoFormat = true
	if praw, e1, e2 := plain.Render(); e1 == "" && e2 == "" {
		for _, k := range a2j.CommentTokens(praw) {
			base += k
		}
		// the code is the same in the raw rendering too (gofmt may hide or repair what the raw text gets wrong)
		gr, wr := a2j.CodeTokens(raw), a2j.CodeTokens(praw)
		if len(gr) != len(wr) {
			r.Violate("comment-alters-tokens", c, "%s: the NoFormat rendering has %d code tokens with comments and %d without", shortPath(name), len(gr), len(wr))
		} else {
			for i := range gr {
				if gr[i] != wr[i] {
					r.Violate("comment-alters-tokens", c, "%s: NoFormat rendering: code token %d is %q with comments and %q without", shortPath(name), i, gr[i], wr[i])
					break
				}
			}
		}
	}
	if total != n+base {
		r.Violate("comment-count", c, "%s: %d comments injected next to %d of the program's own, %d comment tokens in the raw rendering", shortPath(name), n, base, total)
	}
	// in the formatted output every comment is still there: each marker sits in exactly one comment token
	// (gofmt itself may add bare "//" separator lines when it re-flows a doc comment, so tokens are not counted)
	{
		ftoks := a2j.CommentTokens(cout)
		seen := map[string]int{}
		for t, k := range ftoks {
			for _, m := range markerRe.FindAllString(t, -1) {
				seen[m] += k
			}
		}
		for i := 1; i <= n; i++ {
			if seen[fmt.Sprintf("CM%dQ", i)] != 1 {
				r.Violate("comment-count", c, "%s: comment CM%dQ appears in %d comment tokens of the formatted rendering, want 1", shortPath(name), i, seen[fmt.Sprintf("CM%dQ", i)])
				break
			}
		}
	}
	r.Eval("corpus|"+name+fmt.Sprint(ci.Seed), n > 0)
	r.Count("corpus.files", 1)
	r.Count("corpus.comments", int64(n))
	for _, k := range []string{"comment.own", "comment.end", "comment.last"} {
		r.Count("corpus."+k, int64(cm.Tr.Stats[k]))
	}
	if r.Verbose {
		fmt.Printf("%s: %d comments\n--- with comments ---\n%s\n--- without comments ---\n%s\n", name, n, cout, pout)
	}
}

var markerRe = regexp.MustCompile(`CM\d+Q`)

func sum(m map[string]int) int {
	t := 0
	for _, v := range m {
		t += v
	}
	return t
}

// ---- file-level scenarios ----

type fileCmtCase struct {
	Headers   []string `json:"headers"`
	Packages  []string `json:"package_comments"`
	Canonical string   `json:"canonical_path"`
	Body      int      `json:"body"`
	NoFormat  bool     `json:"no_format"`
	Imports   bool     `json:"imports"`
	Order     []bool   `json:"order"` // call order: true = next HeaderComment, false = next PackageComment
}

var fileCmtTexts = []string{"plain text", "", " ", "Package p does things.", "multi\nline text", "trailing newline\n", "code: x := y{", "} else {", "\"quotes\" `and` 'more'", "日本語 ünï", "a\n\nparagraph break", "func main() {", "\\ backslash", "tab\there", "x // y", "\nleading newline", "- list item\n- another", "# heading", "Deprecated: no", "\t indented", "100%", "import \"x\"", " /* TODO", "  // a\nb := c", "keep a\rb := 1", "crlf\r\nsecond"}
var canonPaths = []string{"", "a.b/c", "example.com/x/y", "weird \"quoted\" path", "日本/パス", "back\\slash", "new\nline", "tab\tpath", "`backquote`", "a.b/c // x", "a.b/c */ x", "example.com/app/vendor/github.com/pkg/errors", "vendor/golang.org/x/net", "a.b/internal/c/", "A.B/C"}

func genFileCmt(rnd *rand.Rand) fileCmtCase {
	fc := fileCmtCase{Body: rnd.Intn(4), NoFormat: rnd.Intn(4) == 0, Imports: rnd.Intn(2) == 0}
	pick := func(i int, kind string) string {
		tx := fileCmtTexts[rnd.Intn(len(fileCmtTexts))]
		marker := fmt.Sprintf("%s%dQ", kind, i)
		switch {
		case tx == "" && rnd.Intn(2) == 0:
			return "" // a genuinely empty entry (paragraph break)
		case strings.HasPrefix(tx, "\n"):
			return "\n" + marker + " " + tx[1:]
		case strings.HasPrefix(tx, " ") && strings.Contains(tx, "/"):
			return tx + " " + marker // white space before a comment marker stays at the start of the text
		}
		return marker + " " + tx
	}
	nh, np := rnd.Intn(5), rnd.Intn(5)
	if rnd.Intn(10) == 0 { // a licence header given line by line, a long package doc
		nh, np = 5+rnd.Intn(12), 3+rnd.Intn(12)
	}
	for i := 0; i < nh; i++ {
		fc.Headers = append(fc.Headers, pick(i, "HDR"))
	}
	for i := 0; i < np; i++ {
		fc.Packages = append(fc.Packages, pick(i, "PKG"))
	}
	fc.Canonical = canonPaths[rnd.Intn(len(canonPaths))]
	// the calls may come in any interleaving (headers need not be given first)
	h, p := len(fc.Headers), len(fc.Packages)
	for h > 0 || p > 0 {
		if p == 0 || (h > 0 && rnd.Intn(2) == 0) {
			fc.Order = append(fc.Order, true)
			h--
		} else {
			fc.Order = append(fc.Order, false)
			p--
		}
	}
	return fc
}

func (fc fileCmtCase) build() *jen.File {
	f := jen.NewFile("p")
	f.NoFormat = fc.NoFormat
	hi, pi := 0, 0
	for _, isHeader := range fc.Order {
		if isHeader {
			f.HeaderComment(fc.Headers[hi])
			hi++
		} else {
			f.PackageComment(fc.Packages[pi])
			pi++
		}
	}
	for ; hi < len(fc.Headers); hi++ { // cases built by hand (negative controls) carry no order
		f.HeaderComment(fc.Headers[hi])
	}
	for ; pi < len(fc.Packages); pi++ {
		f.PackageComment(fc.Packages[pi])
	}
	f.CanonicalPath = fc.Canonical
	if fc.Imports {
		f.Var().Id("_").Op("=").Qual("fmt", "Sprint")
	}
	switch fc.Body {
	case 1:
		f.Comment("BODY0Q first body comment")
		f.Func().Id("f").Params().Block()
	case 2:
		f.Func().Id("f").Params().Block(jen.Comment("inside"), jen.Return())
	case 3:
		f.Var().Id("x").Op("=").Lit(1).Comment("trailing")
	}
	return f
}

func markersOf(list []string, kind string) []string {
	var out []string
	for i, tx := range list {
		if tx != "" {
			out = append(out, fmt.Sprintf("%s%dQ", kind, i))
		}
	}
	return out
}

// judgeFileComments reads the output only.
func judgeFileComments(src []byte, fc fileCmtCase) []string {
	var probs []string
	fset := token.NewFileSet()
	af, err := parser.ParseFile(fset, "o.go", src, parser.ParseComments)
	if err != nil {
		return []string{"output does not parse: " + err.Error()}
	}
	doc := ""
	if af.Doc != nil {
		for _, c := range af.Doc.List {
			doc += c.Text + "\n"
		}
	}
	// package comments: every marker in the package doc, in order
	pos := 0
	for _, m := range markersOf(fc.Packages, "PKG") {
		i := strings.Index(doc[pos:], m)
		if i < 0 {
			if strings.Contains(doc, m) {
				probs = append(probs, fmt.Sprintf("package comment %s is out of order in the package doc", m))
			} else {
				probs = append(probs, fmt.Sprintf("package comment %s is not part of the package doc comment", m))
			}
			continue
		}
		pos += i
	}
	// header comments: never in the doc; present before it, in order
	var before strings.Builder
	for _, cg := range af.Comments {
		if cg == af.Doc || cg.Pos() > af.Package {
			continue
		}
		for _, c := range cg.List {
			before.WriteString(c.Text + "\n")
		}
	}
	pos = 0
	hb := before.String()
	for _, m := range markersOf(fc.Headers, "HDR") {
		if strings.Contains(doc, m) {
			probs = append(probs, fmt.Sprintf("header comment %s is part of the package doc comment", m))
			continue
		}
		i := strings.Index(hb[pos:], m)
		if i < 0 {
			probs = append(probs, fmt.Sprintf("header comment %s is missing above the package clause (or out of order)", m))
			continue
		}
		pos += i
	}
	if len(markersOf(fc.Headers, "HDR")) > 0 && af.Doc != nil && len(markersOf(fc.Packages, "PKG")) == 0 && len(fc.Packages) == 0 {
		probs = append(probs, "there are only header comments, yet the package has a doc comment")
	}
	// canonical path annotation on the package clause line
	pkgLine := fset.Position(af.Package).Line
	var ann string
	for _, cg := range af.Comments {
		for _, c := range cg.List {
			if fset.Position(c.Pos()).Line == pkgLine && c.Pos() > af.Package {
				ann = c.Text
			}
		}
	}
	if fc.Canonical == "" {
		if ann != "" {
			probs = append(probs, "unexpected comment on the package clause: "+ann)
		}
	} else {
		rest := strings.TrimPrefix(ann, "// import ")
		if ann == "" || rest == ann {
			probs = append(probs, fmt.Sprintf("package clause has no `// import \"…\"` annotation (found %q)", ann))
		} else if got, err := strconv.Unquote(strings.TrimSpace(rest)); err != nil || got != fc.Canonical {
			probs = append(probs, fmt.Sprintf("import-path annotation %s does not unquote to %q", rest, fc.Canonical))
		}
	}
	if af.Name.Name != "p" {
		probs = append(probs, "package name is "+af.Name.Name)
	}
	return probs
}

func c15FileCase(r *mon.Run, idx int64) {
	rnd := r.Rand("C15/file", idx)
	fc := genFileCmt(rnd)
	c := mon.Case{Gen: "file-level", Seed: r.Seed, Index: idx}
	desc := string(mon.J(fc))
	src, fail := renderFile(fc.build())
	if fail != "" {
		r.Violate("file-comment-render-failure", c, "%s: %s", desc, fail)
	} else {
		for _, p := range judgeFileComments(src, fc) {
			class := "file-comment-placement"
			if strings.Contains(p, "annotation") || strings.Contains(p, "package clause") {
				class = "canonical-path"
			}
			r.Violate(class, c, "%s\ncase: %s\noutput:\n%s", p, desc, src)
		}
		// the same file without any file-level comment has the same code tokens
		bare := fc
		bare.Headers, bare.Packages, bare.Canonical, bare.Order = nil, nil, "", nil
		if bsrc, f2 := renderFile(bare.build()); f2 == "" {
			if a, b := strings.Join(a2j.CodeTokens(src), "\n"), strings.Join(a2j.CodeTokens(bsrc), "\n"); a != b {
				r.Violate("file-comment-alters-tokens", c, "file-level comments change the code-token stream\ncase: %s\noutput:\n%s", desc, src)
			}
		}
		// raw text preservation
		rawc := fc
		rawc.NoFormat = true
		if rsrc, f3 := renderFile(rawc.build()); f3 == "" {
			toks := a2j.CommentTokens(rsrc)
			for _, tx := range append(append([]string(nil), fc.Headers...), fc.Packages...) {
				if tx == "" {
					continue
				}
				if toks[a2j.ExpectedComment(tx)] < 1 {
					r.Violate("file-comment-text-lost", c, "text %q is not one comment token %q of the raw rendering\ncase: %s", tx, a2j.ExpectedComment(tx), desc)
					break
				}
			}
		}
		if r.Verbose {
			fmt.Printf("case %s\n%s\n", desc, src)
		}
	}
	r.Eval(desc, len(fc.Headers)+len(fc.Packages) > 0 || fc.Canonical != "")
	r.Count(fmt.Sprintf("file.headers=%d", len(fc.Headers)), 1)
	r.Count(fmt.Sprintf("file.package_comments=%d", len(fc.Packages)), 1)
	if fc.Canonical != "" {
		r.Count("file.canonical_paths", 1)
	}
	if idx < 2 {
		r.Sample(map[string]interface{}{"file_level_case": fc, "output": mon.Trunc(string(src), 500)})
	}
}

func runC15(r *mon.Run) {
	r.SetRule("part 1: comment injection (own item / end of item / last item; Comment and Commentf) into Block, Defs, Struct, Interface, case bodies and the File of real and generated programs, 22 text shapes (code-looking, braces, quotes, unicode, multi-line, leading/trailing newline, '%', inner // and /*) each with a unique marker; judged on go/scanner token streams (formatted vs. the same program without comments) and on the raw rendering (text, style, count). part 2: file-level scenarios: 0-4 header comments x 0-4 package comments (incl. empty entries) x 11 canonical paths x bodies x imports x NoFormat, judged on ast.File.Doc, the comment groups above the package clause and the package-clause line. non-trivial = >=1 comment injected; distinct by (file, seed) / scenario text")
	r.Assume("texts avoid the documented exclusions (any */ inside text; text that begins with // or /* is only given in well-formed raw form: one block comment, optionally followed by blanks, or one line comment), \\r and build-constraint lines; one comment per line (no end-of-item comment on a Case(...).Block(...) item); text containment is judged on the NoFormat rendering because gofmt rewrites doc comment text itself")
	c15NegControls(r)
	c15Lifetime(r)
	items := corpusList(r, "C15", 700, 200, 3000, 1)
	mon.Parallel(len(items), func(i int) { c15CorpusCase(r, items[i]) })
	n := r.Pick(3000, 300000)
	mon.Parallel(n, func(i int) { c15FileCase(r, int64(i)) })
}

// c15Lifetime: the text of a comment is fixed when Comment / Commentf is called: operands that the caller changes or
// reuses afterwards (the variadic slice, a value behind a pointer, a Stringer) do not change the comment.
type c15Name struct{ s string }

func (n *c15Name) String() string { return n.s }

func c15Lifetime(r *mon.Run) {
	c := mon.Case{Gen: "lifetime", Seed: r.Seed}
	for _, form := range []string{"function", "statement", "group"} {
		args := []interface{}{"AlphaQ", 1}
		name := &c15Name{"StringerOneQ"}
		list := []int{1, 2}
		var items []jen.Code
		add := func(format string, a ...interface{}) {
			switch form {
			case "function":
				items = append(items, jen.Commentf(format, a...))
			case "statement":
				items = append(items, jen.Id("x").Call().Commentf(format, a...))
			default:
				jen.BlockFunc(func(g *jen.Group) { items = append(items, g.Commentf(format, a...)) })
			}
		}
		add("%s has size %d", args...)
		args[0], args[1] = "BetaQ", 2
		add("%s has size %d", args...)
		args[0], args[1] = "GammaQ", 3
		add("%v and %v", name, list)
		name.s = "StringerTwoQ"
		list[0] = 99
		f := jen.NewFile("p")
		f.NoFormat = true
		f.Func().Id("f").Params().Block(items...)
		src, fail := renderFile(f)
		if fail != "" {
			r.Violate("comment-render-panic", c, "Commentf (%s form): %s", form, fail)
			continue
		}
		for _, want := range []string{"AlphaQ has size 1", "BetaQ has size 2", "StringerOneQ and [1 2]"} {
			if !strings.Contains(string(src), "// "+want) {
				r.Violate("comment-text-lost", c, "Commentf (%s form): the comment %q, whose operands were changed or reused after the call, is not in the rendering:\n%s", form, want, mon.Trunc(string(src), 600))
			}
		}
		r.Count("commentf_operands_changed_after_the_call", 3)
	}
	r.Eval("lifetime", true)
}

func replayC15(r *mon.Run, c mon.Case) {
	if c.Gen == "lifetime" {
		c15Lifetime(r)
		return
	}
	if c.Gen == "file-level" {
		c15FileCase(r, c.Index)
		return
	}
	var ci corpusItem
	if err := jsonUnmarshal(c.Extra, &ci); err == nil {
		c15CorpusCase(r, ci)
	}
}

func c15NegControls(r *mon.Run) {
	fc := fileCmtCase{Headers: []string{"HDR0Q h"}, Packages: []string{"PKG0Q a", "", "PKG2Q b"}, Canonical: "a.b/c"}
	ctl := func(name, src string) {
		r.NegControl(name, func() {
			for _, p := range judgeFileComments([]byte(src), fc) {
				r.Violate("negctl", mon.Case{Gen: "negctl"}, "%s", p)
			}
		})
	}
	good := "// HDR0Q h\n\n// PKG0Q a\n//\n// PKG2Q b\npackage p // import \"a.b/c\"\n"
	r.NegControl("sanity-inverse", func() {
		if len(judgeFileComments([]byte(good), fc)) == 0 {
			r.Violate("negctl", mon.Case{Gen: "negctl"}, "accepted (expected)")
		}
	})
	ctl("doc-split-by-blank-line", "// HDR0Q h\n\n// PKG0Q a\n\n// PKG2Q b\npackage p // import \"a.b/c\"\n")
	ctl("header-in-doc", "// HDR0Q h\n// PKG0Q a\n//\n// PKG2Q b\npackage p // import \"a.b/c\"\n")
	ctl("annotation-missing", "// HDR0Q h\n\n// PKG0Q a\n//\n// PKG2Q b\npackage p\n")
	ctl("annotation-wrong-path", "// HDR0Q h\n\n// PKG0Q a\n//\n// PKG2Q b\npackage p // import \"a.b/d\"\n")
	ctl("package-comments-swapped", "// HDR0Q h\n\n// PKG2Q b\n//\n// PKG0Q a\npackage p // import \"a.b/c\"\n")
	// token-stream oracle: a comment that swallows a closer must be visible
	r.NegControl("closer-swallowed", func() {
		a := a2j.CodeTokens([]byte("package p\nfunc f() {\n\tx() // c }\n"))
		b := a2j.CodeTokens([]byte("package p\nfunc f() {\n\tx()\n}\n"))
		if strings.Join(a, "|") != strings.Join(b, "|") {
			r.Violate("negctl", mon.Case{Gen: "negctl"}, "differs")
		}
	})
	_ = bytes.Equal
	_ = ast.Inspect
}
