package main

import (
	"bytes"
	"fmt"
	"math/rand"
	"reflect"
	"runtime"
	"sort"
	"strings"
	"sync/atomic"

	"github.com/dave/jennifer/jen"

	"verifharness/a2j"
	"verifharness/mon"
)

// C14: all forms of a construct are equivalent; callbacks run once, at build time.
// The API table (pkgFuncs) is generated from /repo/jen at check time; the *Statement and *Group methods
// are found by reflection on the package that was just built.

func init() {
	register("C14", "exploration", runC14, replayC14)
}

var (
	tCode      = reflect.TypeOf((*jen.Code)(nil)).Elem()
	tStmt      = reflect.TypeOf((*jen.Statement)(nil))
	tGroup     = reflect.TypeOf((*jen.Group)(nil))
	tDict      = reflect.TypeOf(jen.Dict{})
	tOptions   = reflect.TypeOf(jen.Options{})
	tString    = reflect.TypeOf("")
	tIface     = reflect.TypeOf((*interface{})(nil)).Elem()
	tTagMap    = reflect.TypeOf(map[string]string{})
	tGroupFunc = reflect.TypeOf(func(*jen.Group) {})
	tStmtFunc  = reflect.TypeOf(func(*jen.Statement) {})
	tDictFunc  = reflect.TypeOf(func(jen.Dict) {})
	tLitFunc   = reflect.TypeOf(func() interface{} { return nil })
	tRuneFunc  = reflect.TypeOf(func() rune { return 0 })
	tByteFunc  = reflect.TypeOf(func() byte { return 0 })
)

// cbMon watches user callbacks: how often they ran, and whether that was inside the constructing call
// and on the calling goroutine.
type cbMon struct {
	calls    int64
	building int32
	gid      string
	bad      []string
}

func goid() string {
	b := make([]byte, 64)
	b = b[:runtime.Stack(b, false)]
	return strings.Fields(string(b))[1]
}

func (m *cbMon) enter(what string) {
	atomic.AddInt64(&m.calls, 1)
	if atomic.LoadInt32(&m.building) == 0 {
		m.bad = append(m.bad, what+" callback ran outside the constructing call")
	}
	if g := goid(); g != m.gid {
		m.bad = append(m.bad, what+" callback ran on another goroutine")
	}
}

type argMaker struct {
	r   *rand.Rand
	mon *cbMon
}

var c14Idents = []string{"a", "b", "x", "T", "foo", "err", "string", "v1", "_", "nil", "true", "iota", "len", "init", "main"}
var c14Ops = []string{"+", "-", "*", "&", ":=", "=", "==", "<-", "...", "!", "|", "~", ":", ",", "&&", "++", "."}
var c14Lits = []interface{}{true, "s", "a\nb", 1, -5, 1.5, 1e-7, 2 + 3i, float32(0.1), int8(-3), uint8(200), int64(1) << 40, uint(7), uintptr(9), complex64(1), uint16(1), uint32(1), uint64(1), int16(1), int32(1), false, "", 0, 1e21, 100000.0}

func (a *argMaker) code(depth int) jen.Code {
	r := a.r
	switch k := r.Intn(16); {
	case k == 0:
		return nil
	case k == 1:
		return jen.Null()
	case k == 2:
		return jen.Empty()
	case k < 6 || depth <= 0:
		return jen.Id(c14Idents[r.Intn(len(c14Idents))])
	case k == 6:
		return jen.Lit(c14Lits[r.Intn(len(c14Lits))])
	case k == 7:
		return jen.Qual(collidePaths[r.Intn(len(collidePaths))], "Q")
	case k == 8:
		return jen.Id("f").Call(a.code(depth-1), a.code(depth-1))
	case k == 9:
		return jen.Id("x").Op(c14Ops[r.Intn(len(c14Ops))]).Add(a.code(depth - 1))
	case k == 10:
		return jen.Index(a.code(depth - 1)).Int()
	case k == 11:
		return jen.Case(a.code(depth - 1)).Block(a.code(depth - 1))
	case k == 12:
		v := a.code(depth - 1)
		if v == nil {
			v = jen.Null() // a nil Dict value is API misuse, never generated
		}
		return jen.Id("M").Values(jen.Dict{jen.Lit(1): v, jen.Id("k"): jen.Lit("v")})
	case k == 13:
		return jen.Func().Params().Block(a.code(depth - 1))
	case k == 14:
		return jen.Comment("c")
	default:
		return jen.List(a.code(depth-1), a.code(depth-1))
	}
}

func (a *argMaker) codes() []jen.Code {
	n := a.r.Intn(5)
	if a.r.Intn(8) == 0 {
		n = 5 + a.r.Intn(8)
	}
	out := make([]jen.Code, n)
	for i := range out {
		out[i] = a.code(2)
	}
	return out
}

func (a *argMaker) str(fname string) string {
	r := a.r
	switch {
	case strings.HasPrefix(fname, "Op"):
		return c14Ops[r.Intn(len(c14Ops))]
	case strings.HasPrefix(fname, "Comment"):
		return []string{"text", "multi\nline", "100%% sure", "50%", "//raw", "/* blk */", "", "x %d y", "%s"}[r.Intn(9)]
	case strings.HasPrefix(fname, "Qual"):
		return collidePaths[r.Intn(len(collidePaths))]
	default:
		return c14Idents[r.Intn(len(c14Idents))]
	}
}

// args builds the argument list for a function/method type (receiver excluded); items is the list that a
// variadic ...Code parameter receives and that a func(*Group) callback adds.
func (a *argMaker) args(fname string, ft reflect.Type, skipRecv bool, items []jen.Code) []reflect.Value {
	out := []reflect.Value{}
	start := 0
	if skipRecv {
		start = 1
	}
	strN := 0
	for i := start; i < ft.NumIn(); i++ {
		pt := ft.In(i)
		variadic := ft.IsVariadic() && i == ft.NumIn()-1
		switch {
		case variadic && pt.Elem() == tCode:
			for _, it := range items {
				out = append(out, codeValue(it))
			}
		case variadic && pt.Elem() == tIface:
			n := a.r.Intn(3)
			for j := 0; j < n; j++ {
				out = append(out, reflect.ValueOf([]interface{}{1, "s", 2.5}[a.r.Intn(3)]))
			}
		case pt == tCode:
			out = append(out, codeValue(a.code(2)))
		case pt == tString:
			s := a.str(fname)
			if fname == "Qual" && strN == 1 {
				s = "Sym"
			}
			strN++
			out = append(out, reflect.ValueOf(s))
		case pt == tIface:
			out = append(out, reflect.ValueOf(c14Lits[a.r.Intn(len(c14Lits))]))
		case pt.Kind() == reflect.Int32: // rune
			out = append(out, reflect.ValueOf(rune(a.r.Intn(0x3000))))
		case pt.Kind() == reflect.Uint8:
			out = append(out, reflect.ValueOf(byte(a.r.Intn(256))))
		case pt == tTagMap:
			m := map[string]string{}
			for j, n := 0, a.r.Intn(4); j < n; j++ {
				m[c14Idents[a.r.Intn(len(c14Idents))]] = c14Idents[a.r.Intn(len(c14Idents))] + "\"`\n"[:a.r.Intn(4)]
			}
			out = append(out, reflect.ValueOf(m))
		case pt == tOptions:
			o := jen.Options{Open: []string{"", "(", "{", "<"}[a.r.Intn(4)], Close: []string{"", ")", "}", ">"}[a.r.Intn(4)], Separator: []string{"", ",", ";", "|", "\n", " ; ", " "}[a.r.Intn(7)], Multi: a.r.Intn(2) == 0}
			if a.r.Intn(6) == 0 {
				o = jen.Options{} // the zero value: a plain juxtaposition of the items
			}
			out = append(out, reflect.ValueOf(o))
		case pt == tGroupFunc:
			m := a.mon
			style := a.r.Intn(2)
			out = append(out, reflect.ValueOf(func(g *jen.Group) {
				m.enter(fname)
				for _, it := range items {
					if style == 0 || it == nil {
						g.Add(it)
					} else {
						g.Add(jen.Null()).Add(it) // same items, built through the group's own methods
					}
				}
			}))
		case pt == tStmtFunc:
			m := a.mon
			id := c14Idents[a.r.Intn(len(c14Idents))]
			out = append(out, reflect.ValueOf(func(s *jen.Statement) { m.enter(fname); s.Id(id).Call() }))
		case pt == tDictFunc:
			m := a.mon
			n := a.r.Intn(4)
			out = append(out, reflect.ValueOf(func(d jen.Dict) {
				m.enter(fname)
				for j := 0; j < n; j++ {
					d[jen.Lit(j)] = jen.Id(fmt.Sprintf("v%d", j))
				}
			}))
		case pt == tLitFunc:
			m := a.mon
			v := c14Lits[a.r.Intn(len(c14Lits))]
			out = append(out, reflect.ValueOf(func() interface{} { m.enter(fname); return v }))
		case pt == tRuneFunc:
			m := a.mon
			v := rune(a.r.Intn(0x3000))
			out = append(out, reflect.ValueOf(func() rune { m.enter(fname); return v }))
		case pt == tByteFunc:
			m := a.mon
			v := byte(a.r.Intn(256))
			out = append(out, reflect.ValueOf(func() byte { m.enter(fname); return v }))
		default:
			return nil // a parameter type the harness does not know: reported by the caller
		}
	}
	return out
}

func valuesOf(items []jen.Code) []reflect.Value {
	out := make([]reflect.Value, len(items))
	for i, it := range items {
		out[i] = codeValue(it)
	}
	return out
}

func codeValue(c jen.Code) reflect.Value {
	if c == nil {
		return reflect.Zero(tCode)
	}
	return reflect.ValueOf(c)
}

func rawFile(c jen.Code) (string, string) { return rawOf(c) }

type apiInfo struct {
	names      []string
	stmtMeth   map[string]reflect.Method
	groupMeth  map[string]reflect.Method
	notForm    []string
	unknownSig []string
}

func apiSurvey() *apiInfo {
	ai := &apiInfo{stmtMeth: map[string]reflect.Method{}, groupMeth: map[string]reflect.Method{}}
	for n := range pkgFuncs {
		ai.names = append(ai.names, n)
	}
	sort.Strings(ai.names)
	for i := 0; i < tStmt.NumMethod(); i++ {
		m := tStmt.Method(i)
		ai.stmtMeth[m.Name] = m
	}
	for i := 0; i < tGroup.NumMethod(); i++ {
		m := tGroup.Method(i)
		ai.groupMeth[m.Name] = m
	}
	return ai
}

// sameParams: function type ft and method type mt (with receiver) take the same parameters.
func sameParams(ft, mt reflect.Type) bool {
	if ft.NumIn() != mt.NumIn()-1 || ft.IsVariadic() != mt.IsVariadic() {
		return false
	}
	for i := 0; i < ft.NumIn(); i++ {
		if ft.In(i) != mt.In(i+1) {
			return false
		}
	}
	return true
}

func c14Construct(r *mon.Run, ai *apiInfo, name string, rep int64) {
	c := mon.Case{Gen: "construct", Seed: r.Seed, Index: rep, Extra: mon.J(map[string]string{"name": name})}
	fn := reflect.ValueOf(pkgFuncs[name])
	ft := fn.Type()
	isDict := ft.NumOut() == 1 && ft.Out(0) == tDict
	sm, okS := ai.stmtMeth[name]
	gm, okG := ai.groupMeth[name]
	if !isDict {
		if !okS || !sameParams(ft, sm.Type) {
			r.Violate("form-missing", c, "construct %s has no *Statement method with the same parameters", name)
			return
		}
		if !okG || !sameParams(ft, gm.Type) {
			r.Violate("form-missing", c, "construct %s has no *Group method with the same parameters", name)
			return
		}
	}
	seed := mon.DeriveSeed(r.Seed, "C14/"+name, rep)
	mk := func() (*argMaker, []jen.Code) {
		a := &argMaker{r: rand.New(rand.NewSource(seed)), mon: &cbMon{gid: goid()}}
		return a, a.codes()
	}
	call := func(a *argMaker, f reflect.Value, args []reflect.Value) (res reflect.Value, panicked string) {
		atomic.StoreInt32(&a.mon.building, 1)
		p, what := mon.Guard(func() { res = f.Call(args)[0] })
		atomic.StoreInt32(&a.mon.building, 0)
		if p {
			return res, what
		}
		return res, ""
	}
	hasCallback := false
	for i := 0; i < ft.NumIn(); i++ {
		if ft.In(i).Kind() == reflect.Func {
			hasCallback = true
		}
	}
	checkCallbacks := func(a *argMaker, form string, after func()) {
		if !hasCallback {
			return
		}
		if n := atomic.LoadInt64(&a.mon.calls); n != 1 {
			r.Violate("callback-count", c, "%s (%s form): callback ran %d times during construction, want exactly once", name, form, n)
		}
		after()
		if n := atomic.LoadInt64(&a.mon.calls); n != 1 {
			r.Violate("callback-at-render", c, "%s (%s form): callback ran %d times after construction and 3 renders, want 1", name, form, n)
		}
		for _, b := range a.mon.bad {
			r.Violate("callback-phase", c, "%s (%s form): %s", name, form, b)
		}
	}
	// form 1: package function
	a1, items1 := mk()
	args1 := a1.args(name, ft, false, items1)
	if args1 == nil {
		r.Count("constructs_with_parameter_types_unknown_to_the_harness."+name, 1)
		return
	}
	res1, p1 := call(a1, fn, args1)
	if p1 != "" {
		r.Violate("construct-panic", c, "%s (function form) panicked: %s", name, p1)
		return
	}
	var base jen.Code
	if isDict {
		base = jen.Id("M").Values(res1.Interface().(jen.Dict))
	} else {
		base = res1.Interface().(*jen.Statement)
	}
	want, f1 := rawFile(base)
	if f1 != "" {
		r.Violate("construct-panic", c, "%s (function form) does not render: %s", name, f1)
		return
	}
	checkCallbacks(a1, "function", func() { rawFile(base); rawFile(base); rawFile(base) })
	desc := fmt.Sprintf("%s#%d", name, rep)
	r.Eval(desc, true)
	r.Count("constructs."+name, 1)
	if hasCallback {
		r.Count("callback_constructs_checked", 1)
	}
	if r.Verbose {
		fmt.Printf("%s function form renders:\n%s\n", name, want)
	}
	if isDict {
		// DictFunc(f) equals the Dict literal holding what f adds
		a, _ := mk()
		_ = a
		d := jen.Dict{}
		n := res1.Len()
		for j := 0; j < n; j++ {
			d[jen.Lit(j)] = jen.Id(fmt.Sprintf("v%d", j))
		}
		if got, _ := rawFile(jen.Id("M").Values(d)); got != want {
			r.Violate("form-differs", c, "DictFunc renders\n%s\nbut the equivalent Dict literal renders\n%s", want, got)
		}
		return
	}
	// form 2: *Statement method on an empty statement
	a2, items2 := mk()
	res2, p2 := call(a2, sm.Func, append([]reflect.Value{reflect.ValueOf(jen.Add())}, a2.args(name, ft, false, items2)...))
	if p2 != "" {
		r.Violate("construct-panic", c, "%s (Statement method) panicked: %s", name, p2)
	} else {
		got, _ := rawFile(res2.Interface().(*jen.Statement))
		if got != want {
			r.Violate("form-differs", c, "%s: Statement-method form renders\n%s\nfunction form renders\n%s", name, got, want)
		}
		checkCallbacks(a2, "Statement method", func() { rawFile(res2.Interface().(*jen.Statement)) })
	}
	// form 2b: method on a non-empty receiver == receiver.Add(items of the function form...)
	a3, items3 := mk()
	recv := jen.Id("recv")
	res3, p3 := call(a3, sm.Func, append([]reflect.Value{reflect.ValueOf(recv)}, a3.args(name, ft, false, items3)...))
	a3b, items3b := mk()
	res3b, p3b := call(a3b, fn, a3b.args(name, ft, false, items3b))
	if p3 == "" && p3b == "" {
		st := res3b.Interface().(*jen.Statement)
		ref := jen.Id("recv").Add(*st...)
		got, _ := rawFile(res3.Interface().(*jen.Statement))
		exp, _ := rawFile(ref)
		if got != exp {
			r.Violate("form-differs", c, "%s: recv.%s(args) renders\n%s\nrecv.Add(items of %s(args)...) renders\n%s", name, name, got, name, exp)
		}
		if res3.Interface().(*jen.Statement) != recv {
			r.Violate("method-returns-other-statement", c, "%s: the Statement method does not return its receiver", name)
		}
	}
	// form 3: *Group method inside a BlockFunc callback: appends the new statement and returns it
	a4, items4 := mk()
	var ret *jen.Statement
	var p4 string
	blk := jen.BlockFunc(func(g *jen.Group) {
		g.Id("before")
		res, p := call(a4, gm.Func, append([]reflect.Value{reflect.ValueOf(g)}, a4.args(name, ft, false, items4)...))
		p4 = p
		if p == "" {
			ret = res.Interface().(*jen.Statement)
			ret.Id("appendedQ") // must be visible through the group: the returned statement is the appended one
		}
		g.Id("after")
	})
	if p4 != "" {
		r.Violate("construct-panic", c, "%s (Group method) panicked: %s", name, p4)
	} else {
		a5, items5 := mk()
		res5, _ := call(a5, fn, a5.args(name, ft, false, items5))
		ref := jen.Block(jen.Id("before"), res5.Interface().(*jen.Statement).Id("appendedQ"), jen.Id("after"))
		got, _ := rawFile(blk)
		exp, _ := rawFile(ref)
		if got != exp {
			r.Violate("group-form-differs", c, "%s: g.%s(args) inside a group renders\n%s\nwant (the statement appended to the group and returned)\n%s", name, name, got, exp)
		}
		checkCallbacks(a4, "Group method", func() { rawFile(blk) })
	}
	// the Group form with arguments that are used again: two calls given the very same item(s), each continued by a
	// token of its own — every call appends a statement of its own, like g.Add(fn(items...)) does
	if ft.IsVariadic() && ft.In(ft.NumIn()-1).Elem() == tCode && ft.NumIn() == 1 {
		for _, single := range []bool{false, true} {
			build := func(viaAdd bool) (string, string) {
				_, items := mk()
				if single {
					items = []jen.Code{jen.Id("onlyQ").Dot("recv")}
				}
				var p string
				blk := jen.BlockFunc(func(g *jen.Group) {
					for _, tail := range []string{"tail1Q", "tail2Q"} {
						pp, what := mon.Guard(func() {
							var st *jen.Statement
							if viaAdd {
								st = fn.Call(valuesOf(items))[0].Interface().(*jen.Statement)
								g.Add(st)
							} else {
								st = gm.Func.Call(append([]reflect.Value{reflect.ValueOf(g)}, valuesOf(items)...))[0].Interface().(*jen.Statement)
							}
							st.Id(tail)
						})
						if pp {
							p = what
						}
					}
				})
				out, _ := rawFile(blk)
				return out, p
			}
			got, pg := build(false)
			exp, pe := build(true)
			if pg == "" && pe == "" && got != exp {
				r.Violate("group-form-differs", c, "%s: two g.%s(items...) calls given the same item(s) (single statement: %v), each continued by a token, render\n%s\nbut g.Add(%s(items...)) twice renders\n%s", name, name, single, got, name, exp)
			}
			r.Count("group_form_with_reused_arguments", 1)
		}
	}
	// …Func variant vs variadic base
	if strings.HasSuffix(name, "Func") && ft.NumIn() > 0 && ft.In(ft.NumIn()-1) == tGroupFunc {
		baseName := strings.TrimSuffix(name, "Func")
		if bf, ok := pkgFuncs[baseName]; ok {
			bt := reflect.TypeOf(bf)
			a6, items6 := mk()
			bargs := a6.args(baseName, bt, false, items6)
			// leading non-variadic parameters must be generated identically: same seed, same order
			res6, p6 := call(a6, reflect.ValueOf(bf), bargs)
			if p6 == "" && bargs != nil {
				got, _ := rawFile(res6.Interface().(*jen.Statement))
				if got != want {
					r.Violate("func-variant-differs", c, "%s(callback adding the items) renders\n%s\n%s(items...) renders\n%s", name, want, baseName, got)
				}
			}
		} else {
			r.Violate("form-missing", c, "%s has no variadic counterpart %s", name, baseName)
		}
	}
	// the caller's variadic slice is the caller's: a construct must neither write into its spare capacity nor
	// keep depending on it (two statements built from the same slice, each continued by another token, must
	// both render as if built from private copies)
	if ft.IsVariadic() && ft.In(ft.NumIn()-1).Elem() == tCode && ft.NumIn() == 1 {
		a8, items8 := mk()
		_ = a8
		n := len(items8)
		backing := make([]jen.Code, n, n+4)
		copy(backing, items8)
		sentinel := jen.Id("sentinelQ")
		full := backing[:n+1]
		full[n] = sentinel
		callWith := func(tail string) (*jen.Statement, string) {
			var st *jen.Statement
			p, what := mon.Guard(func() {
				st = fn.Call([]reflect.Value{reflect.ValueOf(backing)}[0:1])[0].Interface().(*jen.Statement)
				st.Id(tail)
			})
			if p {
				return nil, what
			}
			return st, ""
		}
		// CallSlice semantics: pass the slice itself as the variadic argument
		callSlice := func(tail string) (*jen.Statement, string) {
			var st *jen.Statement
			p, what := mon.Guard(func() {
				st = fn.CallSlice([]reflect.Value{reflect.ValueOf(backing)})[0].Interface().(*jen.Statement)
				st.Id(tail)
			})
			if p {
				return nil, what
			}
			return st, ""
		}
		_ = callWith
		s1, p1 := callSlice("tail1Q")
		s2, p2 := callSlice("tail2Q")
		if p1 == "" && p2 == "" {
			if full[n] != sentinel {
				r.Violate("variadic-slice-written", c, "%s(items...) wrote into the spare capacity of the caller's slice", name)
			}
			for i := range items8 {
				if backing[i] != items8[i] {
					r.Violate("variadic-slice-written", c, "%s(items...) rearranged the caller's slice: element %d changed", name, i)
					break
				}
			}
			{
				a10, items10 := mk()
				_ = a10
				ref2 := fn.Call(valuesOf(items10))[0].Interface().(*jen.Statement).Id("tail2Q")
				got2, _ := rawFile(s2)
				exp2, _ := rawFile(ref2)
				if got2 != exp2 {
					r.Violate("variadic-slice-aliased", c, "the second %s(items...) built from the same slice renders\n%s\na private build renders\n%s", name, got2, exp2)
				}
			}
			a9, items9 := mk()
			_ = a9
			ref1 := fn.Call(valuesOf(items9))[0].Interface().(*jen.Statement).Id("tail1Q")
			got1, _ := rawFile(s1)
			exp1, _ := rawFile(ref1)
			if got1 != exp1 {
				r.Violate("variadic-slice-aliased", c, "%s(items...).Id(tail1) renders\n%s\nafter a second %s(items...).Id(tail2) was built from the same slice; a private build renders\n%s", name, got1, name, exp1)
			}
			_ = s2
		}
	}
	// a callback may also add to the group that encloses the construct: what it adds comes first, because the
	// callback runs inside the constructing call, before the Group form appends the new statement
	if ft.NumIn() > 0 && ft.In(ft.NumIn()-1) == tGroupFunc && !isDict {
		build := func(viaAdd bool) (string, string) {
			var p string
			blk := jen.BlockFunc(func(outer *jen.Group) {
				outer.Id("firstQ")
				a, items := mk()
				args := a.args(name, ft, false, items)
				// replace the callback by one that also adds to the enclosing group
				args[len(args)-1] = reflect.ValueOf(func(g *jen.Group) {
					outer.Id("fromCallbackQ")
					for _, it := range items {
						g.Add(it)
					}
				})
				var pp bool
				var what string
				if viaAdd {
					pp, what = mon.Guard(func() { outer.Add(fn.Call(args)[0].Interface().(*jen.Statement)) })
				} else {
					pp, what = mon.Guard(func() { gm.Func.Call(append([]reflect.Value{reflect.ValueOf(outer)}, args...)) })
				}
				if pp {
					p = what
				}
				outer.Id("lastQ")
			})
			out, _ := rawFile(blk)
			return out, p
		}
		got, pg := build(false)
		exp, pe := build(true)
		if pg == "" && pe == "" && got != exp {
			r.Violate("group-form-differs", c, "%s: when the callback also adds to the enclosing group, g.%s(cb) renders\n%s\nbut g.Add(%s(cb)) renders\n%s", name, name, got, name, exp)
		}
	}
	// same for a func(*Statement) callback (Do): g.Do(cb) must equal g.Add(Do(cb)) when cb also adds to g
	if ft.NumIn() == 1 && ft.In(0) == tStmtFunc {
		build := func(viaAdd bool) string {
			blk := jen.BlockFunc(func(outer *jen.Group) {
				outer.Id("firstQ")
				cb := func(st *jen.Statement) {
					outer.Id("fromCallbackQ")
					st.Id("builtQ")
				}
				mon.Guard(func() {
					if viaAdd {
						outer.Add(fn.Call([]reflect.Value{reflect.ValueOf(cb)})[0].Interface().(*jen.Statement))
					} else {
						gm.Func.Call([]reflect.Value{reflect.ValueOf(outer), reflect.ValueOf(cb)})
					}
				})
				outer.Id("lastQ")
			})
			out, _ := rawFile(blk)
			return out
		}
		if got, exp := build(false), build(true); got != exp {
			r.Violate("group-form-differs", c, "%s: when the callback also adds to the enclosing group, g.%s(cb) renders\n%s\nbut g.Add(%s(cb)) renders\n%s", name, name, got, name, exp)
		}
	}
	// Do whose callback leaves a case header, a Block chained onto the result: the statement returned by the Group form
	// is the one the callback filled (the Block follows its Case directly), as in the other forms
	if ft.NumIn() == 1 && ft.In(0) == tStmtFunc {
		build := func(form int) string {
			cb := func(st *jen.Statement) { st.Case(jen.Lit(1), jen.Lit(2)) }
			blk := jen.Switch(jen.Id("v")).BlockFunc(func(outer *jen.Group) {
				mon.Guard(func() {
					switch form {
					case 0:
						gm.Func.Call([]reflect.Value{reflect.ValueOf(outer), reflect.ValueOf(cb)})[0].Interface().(*jen.Statement).Block(jen.Id("bodyQ").Call())
					case 1:
						outer.Add(fn.Call([]reflect.Value{reflect.ValueOf(cb)})[0].Interface().(*jen.Statement).Block(jen.Id("bodyQ").Call()))
					default:
						outer.Add(sm.Func.Call([]reflect.Value{reflect.ValueOf(&jen.Statement{}), reflect.ValueOf(cb)})[0].Interface().(*jen.Statement).Block(jen.Id("bodyQ").Call()))
					}
				})
			})
			out, _ := rawFile(blk)
			return out
		}
		if g0, g1, g2 := build(0), build(1), build(2); g0 != g1 || g1 != g2 {
			r.Violate("group-form-differs", c, "%s: a callback that leaves `case 1, 2` and a Block chained onto the result render\n--- Group form ---\n%s\n--- function form ---\n%s\n--- Statement form ---\n%s", name, g0, g1, g2)
		}
	}
	// a callback that adds nothing (the usual conditional use): the Group form still appends the new statement and
	// returns it, so tokens chained onto the result are part of the group
	if n := ft.NumIn(); n > 0 && (ft.In(n-1) == tStmtFunc || ft.In(n-1) == tGroupFunc) && !isDict {
		build := func(viaAdd bool) (string, string) {
			var p string
			blk := jen.BlockFunc(func(outer *jen.Group) {
				outer.Id("firstQ")
				a, items := mk()
				args := a.args(name, ft, false, items)
				if ft.In(n-1) == tStmtFunc {
					args[len(args)-1] = reflect.ValueOf(func(*jen.Statement) {})
				} else {
					args[len(args)-1] = reflect.ValueOf(func(*jen.Group) {})
				}
				pp, what := mon.Guard(func() {
					var st *jen.Statement
					if viaAdd {
						st = fn.Call(args)[0].Interface().(*jen.Statement)
						outer.Add(st)
					} else {
						st = gm.Func.Call(append([]reflect.Value{reflect.ValueOf(outer)}, args...))[0].Interface().(*jen.Statement)
					}
					st.Id("chainedQ").Op("=").Lit(1)
				})
				if pp {
					p = what
				}
				outer.Id("lastQ")
			})
			out, _ := rawFile(blk)
			return out, p
		}
		got, pg := build(false)
		exp, pe := build(true)
		if pg == "" && pe == "" && got != exp {
			r.Violate("group-form-differs", c, "%s: with a callback that adds nothing and tokens chained onto the result, g.%s(cb).Id(..) renders\n%s\nbut g.Add(%s(cb)).Id(..) renders\n%s", name, name, got, name, exp)
		}
		r.Count("empty_callback_then_chained_cases", 1)
	}
	// GoString, Render and RenderWithFile with a fresh File agree
	a7, items7 := mk()
	res7, p7 := call(a7, fn, a7.args(name, ft, false, items7))
	if p7 == "" {
		st := res7.Interface().(*jen.Statement)
		var b1, b2 bytes.Buffer
		var e1, e2 error
		var gs string
		var gp string
		pp, what := mon.Guard(func() {
			e1 = st.Render(&b1)
			e2 = st.RenderWithFile(&b2, jen.NewFile(""))
			// a File's NoFormat setting is about File.Render: a fragment rendered with such a File is formatted all the same
			nf := jen.NewFile("")
			nf.NoFormat = true
			var b3 bytes.Buffer
			if e3 := st.RenderWithFile(&b3, nf); (e3 == nil) != (e2 == nil) || (e3 == nil && b3.String() != b2.String()) {
				r.Violate("render-entry-points-differ", c, "%s: RenderWithFile(fresh File) gives %q (error %v) but RenderWithFile(fresh File with NoFormat) gives %q (error %v)", name, mon.Trunc(b2.String(), 200), e2, mon.Trunc(b3.String(), 200), e3)
			}
		})
		if pp {
			r.Violate("construct-panic", c, "%s: Render panicked: %s", name, what)
		} else {
			gpanic, gwhat := mon.Guard(func() { gs = st.GoString() })
			if gpanic {
				gp = gwhat
			}
			switch {
			case (e1 == nil) != (e2 == nil):
				r.Violate("render-entry-points-differ", c, "%s: Render error %v but RenderWithFile(fresh File) error %v", name, e1, e2)
			case e1 == nil && b1.String() != b2.String():
				r.Violate("render-entry-points-differ", c, "%s: Render gives\n%s\nRenderWithFile(fresh File) gives\n%s", name, b1.String(), b2.String())
			case e1 == nil && (gp != "" || gs != b1.String()):
				r.Violate("render-entry-points-differ", c, "%s: GoString gives %q (panic %q), Render gives %q", name, gs, gp, b1.String())
			case e1 != nil && gp == "":
				r.Violate("render-entry-points-differ", c, "%s: Render fails (%v) but GoString returned %q", name, mon.Trunc(e1.Error(), 100), gs)
			}
			if e1 == nil {
				r.Count("goString_render_renderWithFile_compared", 1)
			}
		}
	}
}

func c14CorpusCase(r *mon.Run, ci corpusItem) {
	name, src := ci.source()
	c := mon.Case{Gen: "corpus", Seed: r.Seed, Extra: mon.J(ci)}
	if len(src) == 0 {
		return
	}
	plain := a2j.Build(name, src, a2j.Roots(), ci.Seed, a2j.Knobs{})
	if plain.Skip != "" || plain.Panic != "" {
		return
	}
	pout, perr, ppanic := plain.Render()
	if perr != "" || ppanic != "" {
		return
	}
	fm := a2j.Build(name, src, a2j.Roots(), ci.Seed, a2j.Knobs{Forms: true})
	if fm.Panic != "" {
		r.Violate("corpus-forms-panic", c, "%s: %s", shortPath(name), mon.Trunc(fm.Panic, 600))
		return
	}
	fout, ferr, fpanic := fm.Render()
	switch {
	case fpanic != "" || ferr != "":
		r.Violate("corpus-forms-render", c, "%s: with random forms per node rendering fails: %s %s", shortPath(name), ferr, fpanic)
	case !bytes.Equal(fout, pout):
		r.Violate("corpus-forms-differ", c, "%s: choosing …Func / method / Add(function) forms per node changes the rendering (first difference at byte %d)", shortPath(name), firstDiff(fout, pout))
		if r.Verbose {
			fmt.Printf("--- forms ---\n%s\n--- plain ---\n%s\n", fout, pout)
		}
	}
	r.Eval("corpus|"+name+fmt.Sprint(ci.Seed), true)
	r.Count("corpus.files", 1)
	for _, k := range []string{"form.func", "form.funcFunc", "form.method", "form.methodFunc", "form.add(func)", "form.add(funcFunc)"} {
		r.Count("corpus."+k, int64(fm.Tr.Stats[k]))
	}
}

func runC14(r *mon.Run) {
	ai := apiSurvey()
	r.SetRule(fmt.Sprintf("API table %s: %d package-level constructors; for each, N argument lists (quick 150, thorough 4,000) generated by parameter type (Code trees with nil/Null/Empty/Qual/Dict/case blocks, strings per construct, all Lit types, runes, bytes, tag maps, Options, instrumented callbacks); compared: function form / Statement method on an empty and on a non-empty receiver / Group method inside a group (result appended and returned) / …Func variant vs variadic base / GoString vs Render vs RenderWithFile(fresh File); callbacks: exactly one run, inside the constructing call, on the calling goroutine, none during 3 later renders. Plus corpus programs built with a random form per node vs the plain build. non-trivial = every case; distinct by (construct, repetition)", apiTableSource, len(ai.names)))
	r.Assume("documented contract panics are never generated: Lit with an unsupported type, Values holding a Dict next to other items")
	r.Put("api_table_source", apiTableSource)
	r.Put("constructs", len(ai.names))
	var extra []string
	for n := range ai.stmtMeth {
		if _, ok := pkgFuncs[n]; !ok {
			extra = append(extra, n)
		}
	}
	sort.Strings(extra)
	r.Put("statement_methods_that_are_not_constructs", extra)
	c14NegControls(r, ai)
	reps := r.Pick(150, 4000)
	type job struct {
		name string
		rep  int64
	}
	var jobs []job
	for _, n := range ai.names {
		for i := 0; i < reps; i++ {
			jobs = append(jobs, job{n, int64(i)})
		}
	}
	mon.Parallel(len(jobs), func(i int) { c14Construct(r, ai, jobs[i].name, jobs[i].rep) })
	items := corpusList(r, "C14", 500, 150, 3000, 1)
	mon.Parallel(len(items), func(i int) { c14CorpusCase(r, items[i]) })
	r.Sample(map[string]interface{}{"constructs": ai.names[:12], "repetitions_each": reps})
}

func replayC14(r *mon.Run, c mon.Case) {
	if c.Gen == "corpus" {
		var ci corpusItem
		if err := jsonUnmarshal(c.Extra, &ci); err == nil {
			c14CorpusCase(r, ci)
		}
		return
	}
	var x struct{ Name string }
	if err := jsonUnmarshal(c.Extra, &x); err == nil {
		c14Construct(r, apiSurvey(), x.Name, c.Index)
	}
}

func c14NegControls(r *mon.Run, ai *apiInfo) {
	// the comparisons are byte equalities and counters; the controls show that the instruments register
	r.NegControl("callback-run-twice", func() {
		m := &cbMon{gid: goid()}
		atomic.StoreInt32(&m.building, 1)
		m.enter("X")
		m.enter("X")
		if m.calls != 1 {
			r.Violate("negctl", mon.Case{Gen: "negctl"}, "count %d", m.calls)
		}
	})
	r.NegControl("callback-during-render", func() {
		m := &cbMon{gid: goid()}
		m.enter("X")
		if len(m.bad) > 0 {
			r.Violate("negctl", mon.Case{Gen: "negctl"}, "%v", m.bad)
		}
	})
	r.NegControl("callback-other-goroutine", func() {
		m := &cbMon{gid: goid()}
		atomic.StoreInt32(&m.building, 1)
		done := make(chan bool)
		go func() { m.enter("X"); done <- true }()
		<-done
		if len(m.bad) > 0 {
			r.Violate("negctl", mon.Case{Gen: "negctl"}, "%v", m.bad)
		}
	})
	r.NegControl("group-method-does-not-append", func() {
		blk := jen.BlockFunc(func(g *jen.Group) { jen.Id("lost") })
		ref := jen.Block(jen.Id("lost"))
		a, _ := rawFile(blk)
		b, _ := rawFile(ref)
		if a != b {
			r.Violate("negctl", mon.Case{Gen: "negctl"}, "differs")
		}
	})
}
