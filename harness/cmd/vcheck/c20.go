package main

import (
	"strconv"
	"bytes"
	"fmt"
	"go/scanner"
	"go/token"
	"math/rand"
	"strings"

	"github.com/dave/jennifer/jen"

	"verifharness/mon"
)

// C20: clone isolation. Random clone/append histories over a tree of Statement handles are executed
// against the real code; after every step every handle is rendered and tokenised; the recorded history is
// judged offline against a list model that admits both a "live" and a "snapshot" view of the original.

func init() {
	register("C20", "exploration", runC20, replayC20)
}

type cloneStep struct {
	Op      string     `json:"op"` // new | clone | append
	Handle  int        `json:"handle"`
	Parent  int        `json:"parent"`
	Kind    string     `json:"kind,omitempty"`
	Tokens  []string   `json:"tokens,omitempty"` // tokens appended by this step
	Renders [][]string `json:"-"`                // rendering of every handle after the step
	Errs    []string   `json:"-"`
	LenCap  [2]int     `json:"len_cap"` // of the stepped / cloned statement before the step
}

// directTokens renders the statement the way a user would (Render, i.e. what %#v prints) and tokenises it.
func directTokens(st *jen.Statement) ([]string, string) {
	buf := &bytes.Buffer{}
	if err := st.Render(buf); err != nil {
		return nil, "error: " + mon.Trunc(err.Error(), 300)
	}
	return tokenise(append([]byte("package p\n"), buf.Bytes()...)), ""
}

func rawTokens(st *jen.Statement) ([]string, string) {
	f := jen.NewFile("p")
	f.NoFormat = true
	f.Add(st)
	src, fail := renderFile(f)
	if fail != "" {
		return nil, fail
	}
	return tokenise(src), ""
}

func tokenise(src []byte) []string {
	var sc scanner.Scanner
	fs := token.NewFileSet()
	sc.Init(fs.AddFile("x.go", fs.Base(), len(src)), src, nil, 0)
	var out []string
	n := 0
	for {
		_, tok, lit := sc.Scan()
		if tok == token.EOF {
			break
		}
		n++
		if n <= 2 { // package p
			continue
		}
		if tok == token.SEMICOLON {
			continue
		}
		if lit == "" {
			lit = tok.String()
		}
		out = append(out, lit)
	}
	return out
}

func c20Execute(rnd *rand.Rand) []cloneStep {
	var handles []*jen.Statement
	var steps []cloneStep
	forceFirst := false
	_ = forceFirst
	rawOnly := rnd.Intn(8) == 0 // a history that also appends struct tags and adjacent literals
	tok := 0
	fresh := func() string { tok++; return fmt.Sprintf("t%d", tok) }
	renderAll := func(s *cloneStep) {
		for _, h := range handles {
			var toks, toks2 []string
			var fail, fail2 string
			if rawOnly {
				if p, what := mon.Guard(func() { toks, fail = rawTokens(h) }); p {
					fail = "panic: " + what
				}
				s.Renders = append(s.Renders, toks)
				s.Errs = append(s.Errs, fail)
				continue
			}
			if p, what := mon.Guard(func() { toks, fail = directTokens(h); toks2, fail2 = rawTokens(h) }); p {
				fail = "panic: " + what
			}
			if fail == "" && fail2 != "" {
				fail = "inside a NoFormat File: " + fail2
			}
			if fail == "" && !eqTokens(toks, toks2) {
				fail = fmt.Sprintf("Render gives %v but the same statement inside a File gives %v", toks, toks2)
			}
			s.Renders = append(s.Renders, toks)
			s.Errs = append(s.Errs, fail)
		}
	}
	appendTo := func(h *jen.Statement, s *cloneStep, empty bool) {
		s.LenCap = [2]int{len(*h), cap(*h)}
		if rawOnly && !empty && rnd.Intn(3) == 0 {
			// struct tags and bare literals: not an expression any more, judged on the raw rendering only
			if rnd.Intn(2) == 0 {
				k := fresh()
				h.Tag(map[string]string{k: "v"})
				s.Kind, s.Tokens = "Tag", []string{"`" + k + `:"v"` + "`"}
			} else {
				n := 1000 + tok
				tok++
				h.Lit(n)
				s.Kind, s.Tokens = "Lit", []string{fmt.Sprint(n)}
			}
			return
		}
		if empty { // nothing rendered yet: start the expression with an operand
			a := fresh()
			h.Id(a)
			s.Kind, s.Tokens = "Id", []string{a}
			return
		}
		switch rnd.Intn(9) {
		case 0, 1:
			a := fresh()
			h.Dot(a)
			s.Kind, s.Tokens = "Dot", []string{".", a}
		case 2:
			a := fresh()
			h.Op("+").Id(a)
			s.Kind, s.Tokens = "Op.Id", []string{"+", a}
		case 3:
			a, b := fresh(), fresh()
			h.Dot(a).Dot(b)
			s.Kind, s.Tokens = "Dot.Dot", []string{".", a, ".", b}
		case 4:
			k := 1 + rnd.Intn(4)
			var items []jen.Code
			for i := 0; i < k; i++ {
				a := fresh()
				items = append(items, jen.Op("*"), jen.Id(a))
				s.Tokens = append(s.Tokens, "*", a)
			}
			h.Add(items...)
			s.Kind = fmt.Sprintf("Add(%d)", 2*k)
		case 5:
			a := fresh()
			h.Call(jen.Id(a))
			s.Kind, s.Tokens = "Call", []string{"(", a, ")"}
		case 6:
			a := fresh()
			h.Index(jen.Id(a))
			s.Kind, s.Tokens = "Index", []string{"[", a, "]"}
		case 7:
			a := fresh()
			h.Op("-").Id(a)
			s.Kind, s.Tokens = "Op.Id", []string{"-", a}
		default:
			a, b := fresh(), fresh()
			h.Dot(a).Call(jen.Id(b))
			s.Kind, s.Tokens = "Dot.Call", []string{".", a, "(", b, ")"}
		}
	}
	// the original; one history in five starts from a still-empty statement
	var first *jen.Statement
	s0 := cloneStep{Op: "new", Handle: 0, Parent: -1}
	if rnd.Intn(5) == 0 {
		first = jen.Add()
		forceFirst = true
	} else {
		first = jen.Id(fresh())
		s0.Tokens = []string{"t1"}
	}
	handles = append(handles, first)
	renderAll(&s0)
	steps = append(steps, s0)
	maxHandles := 3 + rnd.Intn(6)
	nsteps := 10 + rnd.Intn(51)
	chain := rnd.Intn(12) == 0 // a long chain of clones of clones (depth 34-75)
	if chain {
		maxHandles = 35 + rnd.Intn(42)
		nsteps = maxHandles + 10 + rnd.Intn(10)
	}
	for i := 0; i < nsteps; i++ {
		var s cloneStep
		if len(handles) < maxHandles && (rnd.Intn(4) == 0 || (chain && rnd.Intn(5) > 0)) {
			p := rnd.Intn(len(handles))
			if chain {
				p = len(handles) - 1 // always clone the newest: the chain gets deeper
			}
			s = cloneStep{Op: "clone", Handle: len(handles), Parent: p, LenCap: [2]int{len(*handles[p]), cap(*handles[p])}}
			var c *jen.Statement
			viaDo := rnd.Intn(3) == 0 // the clone is taken inside a Do callback
			if viaDo {
				s.Kind = "Do(Clone)"
			}
			if pn, what := mon.Guard(func() {
				if viaDo {
					handles[p].Do(func(st *jen.Statement) { c = st.Clone() })
				} else {
					c = handles[p].Clone()
				}
			}); pn {
				s.Errs = append(s.Errs, "Clone panicked: "+what)
				steps = append(steps, s)
				return steps
			}
			handles = append(handles, c)
		} else {
			h := rnd.Intn(len(handles))
			prevToks := steps[len(steps)-1].Renders
			isEmpty := h < len(prevToks) && len(prevToks[h]) == 0
			if isEmpty {
				// while nothing is rendered yet the first operand goes to the original itself (an operand
				// appended to an empty clone would later sit next to the original's operand: not an expression)
				h = 0
			}
			s = cloneStep{Op: "append", Handle: h, Parent: -1}
			if pn, what := mon.Guard(func() { appendTo(handles[h], &s, isEmpty) }); pn {
				s.Errs = append(s.Errs, "append panicked: "+what)
				steps = append(steps, s)
				return steps
			}
		}
		renderAll(&s)
		steps = append(steps, s)
	}
	return steps
}

func eqTokens(a, b []string) bool {
	if len(a) != len(b) {
		return false
	}
	for i := range a {
		if a[i] != b[i] {
			return false
		}
	}
	return true
}

// checkCloneHistory is the offline checker over the recorded steps.
func checkCloneHistory(steps []cloneStep) []string {
	var probs []string
	type hstate struct {
		parent   int
		atClone  []string // parent's rendering when this handle was cloned
		own      []string // tokens appended to this handle itself
		children []int
	}
	var hs []*hstate
	var prev [][]string
	inSubtree := func(root, h int) bool {
		for h >= 0 {
			if h == root {
				return true
			}
			h = hs[h].parent
		}
		return false
	}
	cat := func(a, b []string) []string { return append(append([]string(nil), a...), b...) }
	for si, s := range steps {
		for hi, e := range s.Errs {
			if e != "" {
				probs = append(probs, fmt.Sprintf("step %d (%s h%d): handle h%d does not render: %s", si, s.Op, s.Handle, hi, e))
			}
		}
		if len(probs) > 0 {
			return probs
		}
		switch s.Op {
		case "new":
			hs = append(hs, &hstate{parent: -1, own: append([]string(nil), s.Tokens...)})
		case "clone":
			hs = append(hs, &hstate{parent: s.Parent, atClone: append([]string(nil), prev[s.Parent]...)})
			hs[s.Parent].children = append(hs[s.Parent].children, s.Handle)
			if !eqTokens(s.Renders[s.Handle], s.Renders[s.Parent]) {
				probs = append(probs, fmt.Sprintf("step %d: an unmodified clone h%d renders %v, its original h%d renders %v", si, s.Handle, s.Renders[s.Handle], s.Parent, s.Renders[s.Parent]))
			}
		case "append":
			hs[s.Handle].own = append(hs[s.Handle].own, s.Tokens...)
			if want := cat(prev[s.Handle], s.Tokens); !eqTokens(s.Renders[s.Handle], want) {
				probs = append(probs, fmt.Sprintf("step %d: after %s on h%d it renders %v, want its previous rendering plus the new tokens %v", si, s.Kind, s.Handle, s.Renders[s.Handle], want))
			}
		}
		// every handle outside the stepped handle's clone subtree is unchanged
		if s.Op == "append" {
			for h := range hs {
				if !inSubtree(s.Handle, h) && !eqTokens(prev[h], s.Renders[h]) {
					probs = append(probs, fmt.Sprintf("step %d: %s on h%d (len %d cap %d before) changed h%d, which is not a clone of it: %v -> %v", si, s.Kind, s.Handle, s.LenCap[0], s.LenCap[1], h, prev[h], s.Renders[h]))
				}
			}
		}
		// every clone renders P ++ own with P the original's rendering at clone time or now
		for h, st := range hs {
			var okLive, okSnap bool
			if st.parent < 0 {
				okLive = eqTokens(s.Renders[h], st.own)
				okSnap = okLive
			} else {
				okLive = eqTokens(s.Renders[h], cat(s.Renders[st.parent], st.own))
				okSnap = eqTokens(s.Renders[h], cat(st.atClone, st.own))
			}
			if st.parent >= 0 && len(st.own) == 0 && !eqTokens(s.Renders[h], s.Renders[st.parent]) {
				probs = append(probs, fmt.Sprintf("step %d: the unmodified clone h%d renders %v but its original h%d renders %v", si, h, s.Renders[h], st.parent, s.Renders[st.parent]))
			}
			if !okLive && !okSnap {
				probs = append(probs, fmt.Sprintf("step %d: h%d renders %v; its own tokens are %v, its original rendered %v at clone time and %v now — tokens were lost, altered or reordered", si, h, s.Renders[h], st.own, st.atClone, parentNow(s, st.parent)))
			}
		}
		prev = s.Renders
		if len(probs) > 6 {
			break
		}
	}
	return probs
}

func parentNow(s cloneStep, p int) []string {
	if p < 0 {
		return nil
	}
	return s.Renders[p]
}

func cloneDesc(steps []cloneStep) string {
	var sb strings.Builder
	for _, s := range steps {
		switch s.Op {
		case "new":
			sb.WriteString("h0=Id ")
		case "clone":
			fmt.Fprintf(&sb, "h%d=h%d.%sClone()[%d/%d] ", s.Handle, s.Parent, map[string]string{"": "", "Do(Clone)": "Do:"}[s.Kind], s.LenCap[0], s.LenCap[1])
		default:
			fmt.Fprintf(&sb, "h%d.%s ", s.Handle, s.Kind)
		}
	}
	return sb.String()
}

func c20Case(r *mon.Run, idx int64) {
	rnd := r.Rand("C20/history", idx)
	steps := c20Execute(rnd)
	c := mon.Case{Gen: "history", Seed: r.Seed, Index: idx}
	desc := cloneDesc(steps)
	for _, p := range checkCloneHistory(steps) {
		class := "clone-corruption"
		if strings.Contains(p, "unmodified clone") {
			class = "clone-not-equal-original"
		} else if strings.Contains(p, "does not render") {
			class = "clone-render-failure"
		} else if strings.Contains(p, "not a clone of it") {
			class = "append-leaks-to-other-handle"
		}
		r.Violate(class, c, "%s\nhistory: %s", p, desc)
	}
	if r.Verbose {
		fmt.Println("history:", desc)
		for i, s := range steps {
			fmt.Printf("step %d %s h%d %s +%v -> %v\n", i, s.Op, s.Handle, s.Kind, s.Tokens, s.Renders)
		}
	}
	clones, spare, realloc, noRealloc := 0, 0, 0, 0
	for _, s := range steps {
		switch s.Op {
		case "clone":
			clones++
			if s.LenCap[1] > s.LenCap[0] {
				spare++
			}
		case "append":
			if s.LenCap[0]+len(s.Tokens) > s.LenCap[1] {
				realloc++
			} else {
				noRealloc++
			}
		}
	}
	r.Eval(desc, clones >= 1)
	r.Count("steps", int64(len(steps)))
	r.Count("clone_points", int64(clones))
	r.Count("clone_points_with_spare_capacity", int64(spare))
	r.Count("appends_that_reallocated", int64(realloc))
	r.Count("appends_in_place", int64(noRealloc))
	if idx < 3 {
		r.Sample(map[string]interface{}{"history": desc})
	}
}

// c20Shapes: originals that are not expressions — case clauses (whose Block renders without braces because of the
// token before it), declarations, tags, comments, Dicts, qualified identifiers. An unmodified clone (and a clone of
// the clone, and the original added to a new statement) must render exactly like the original, in the same context.
var c20Shapes = []struct {
	name string
	mk   func() *jen.Statement
	wrap func(inner *jen.Statement) jen.Code
}{
	{"case-block", func() *jen.Statement { return jen.Case(jen.Lit(1)).Block(jen.Id("a").Call(), jen.Return()) }, c20InSwitch},
	{"case-list-block", func() *jen.Statement {
		return jen.Case(jen.Lit(1), jen.Lit(2)).Block(jen.Id("a").Call())
	}, c20InSwitch},
	{"default-block", func() *jen.Statement { return jen.Default().Block(jen.Id("b").Call()) }, c20InSwitch},
	{"default-empty-block", func() *jen.Statement { return jen.Default().Block() }, c20InSwitch},
	{"case-blockfunc", func() *jen.Statement {
		return jen.Case(jen.Id("x")).BlockFunc(func(g *jen.Group) { g.Id("c").Call(); g.Break() })
	}, c20InSwitch},
	{"case-line-comment-block", func() *jen.Statement {
		return jen.Case(jen.Lit("s")).Block(jen.Comment("nothing"), jen.Fallthrough())
	}, c20InSwitch},
	{"select-case", func() *jen.Statement {
		return jen.Case(jen.Op("<-").Id("ch")).Block(jen.Id("d").Call())
	}, func(in *jen.Statement) jen.Code {
		return jen.Func().Id("f").Params().Block(jen.Select().Block(in, jen.Default().Block()))
	}},
	{"if-else", func() *jen.Statement {
		return jen.If(jen.Id("a").Op(">").Lit(1)).Block(jen.Return()).Else().Block(jen.Id("b").Call())
	}, c20InFunc},
	{"for-block", func() *jen.Statement {
		return jen.For(jen.Id("i").Op(":=").Range().Id("xs")).Block(jen.Continue())
	}, c20InFunc},
	{"switch-whole", func() *jen.Statement {
		return jen.Switch(jen.Id("v")).Block(jen.Case(jen.Lit(1)).Block(jen.Id("a").Call()), jen.Default().Block(jen.Id("b").Call()))
	}, c20InFunc},
	{"struct-tags", func() *jen.Statement {
		return jen.Type().Id("T").Struct(jen.Id("A").Int().Tag(map[string]string{"json": "a", "xml": "b"}), jen.Id("B").String().Tag(map[string]string{"k": ""}))
	}, c20TopLevel},
	{"field-with-tag", func() *jen.Statement { return jen.Id("A").Int().Tag(map[string]string{"json": "a"}) }, func(in *jen.Statement) jen.Code {
		return jen.Type().Id("T").Struct(in, jen.Id("Z").Int())
	}},
	{"dict-values", func() *jen.Statement {
		return jen.Var().Id("m").Op("=").Map(jen.String()).Int().Values(jen.Dict{jen.Lit("a"): jen.Lit(1), jen.Lit("b"): jen.Qual("a.b/c", "X")})
	}, c20TopLevel},
	{"qual-and-generics", func() *jen.Statement {
		return jen.Var().Id("v").Qual("a.b/c", "G").Types(jen.Int(), jen.Qual("d.e/c", "T")).Op("=").Qual("fmt", "Sprint").Call(jen.Lit(1.5), jen.LitRune('x'))
	}, c20TopLevel},
	{"comment-then-decl", func() *jen.Statement {
		return jen.Comment("doc").Line().Func().Id("g").Params(jen.Id("a").Op("...").Int()).Params(jen.Error()).Block(jen.Return(jen.Nil()))
	}, c20TopLevel},
	{"multi-line-comment", func() *jen.Statement { return jen.Comment("a\nb").Line().Var().Id("w").Int() }, c20TopLevel},
	{"interface-union", func() *jen.Statement {
		return jen.Type().Id("N").Interface(jen.Union(jen.Op("~").Int(), jen.Float64()), jen.Id("M").Params().Int())
	}, c20TopLevel},
	{"defs", func() *jen.Statement {
		return jen.Const().Defs(jen.Id("A").Op("=").Iota(), jen.Id("B"), jen.Null(), jen.Id("C"))
	}, c20TopLevel},
	{"custom", func() *jen.Statement {
		return jen.Var().Id("c").Op("=").Custom(jen.Options{Open: "[]int{", Close: "}", Separator: ",", Multi: true}, jen.Lit(1), jen.Lit(2))
	}, c20TopLevel},
	{"starts-with-line", func() *jen.Statement { return jen.Line().Id("c").Op("=").Id("d") }, func(in *jen.Statement) jen.Code {
		return jen.Func().Id("f").Params().Block(jen.Id("a").Op("=").Id("b").Add(in))
	}},
	{"line-inside", func() *jen.Statement { return jen.Id("c").Op("=").Id("d").Line().Id("e").Op("=").Id("g") }, c20InFunc},
	{"comment-with-trailing-newline-last", func() *jen.Statement {
		return jen.Id("a").Op("=").Id("b").Comment("see the manual\n")
	}, c20InFunc},
	{"line-comment-last", func() *jen.Statement { return jen.Id("a").Op("=").Id("b").Comment("why") }, c20InFunc},
	{"raw-block-comment-last", func() *jen.Statement { return jen.Id("a").Op("=").Id("b").Comment("/* inline */") }, c20InFunc},
	{"null-and-empty", func() *jen.Statement {
		return jen.Var().Id("e").Op("=").Id("s").Index(jen.Empty(), jen.Lit(2)).Add(jen.Null()).Add(nil)
	}, c20TopLevel},
}

func c20InFunc(in *jen.Statement) jen.Code { return jen.Func().Id("f").Params().Block(in) }
func c20TopLevel(in *jen.Statement) jen.Code { return in }
func c20InSwitch(in *jen.Statement) jen.Code {
	return jen.Func().Id("f").Params().Block(jen.Switch(jen.Id("v")).Block(jen.Case(jen.Lit(0)).Block(), in))
}

func c20ShapeCases(r *mon.Run) {
	for i, sh := range c20Shapes {
		c := mon.Case{Gen: "shape", Seed: r.Seed, Index: int64(i)}
		for _, noFormat := range []bool{true, false} {
			render := func(st *jen.Statement) (string, string) {
				f := jen.NewFile("p")
				f.NoFormat = noFormat
				f.Add(sh.wrap(st))
				src, fail := renderFile(f)
				return string(src), fail
			}
			orig := sh.mk()
			want, f0 := render(orig)
			if f0 != "" {
				r.Inconclusive("C20 shape " + sh.name + " does not render on this tree: " + f0)
				continue
			}
			views := []struct {
				what string
				st   func() *jen.Statement
			}{
				{"Clone()", func() *jen.Statement { return orig.Clone() }},
				{"Clone().Clone()", func() *jen.Statement { return orig.Clone().Clone() }},
				{"Clone() taken after a render of the original", func() *jen.Statement { render(orig); return orig.Clone() }},
				{"Clone() of a fresh original, rendered twice", func() *jen.Statement { cl := sh.mk().Clone(); render(cl); return cl }},
			}
			for _, v := range views {
				var got, fail string
				if p, what := mon.Guard(func() { got, fail = render(v.st()) }); p {
					fail = "panic: " + what
				}
				if fail != "" {
					r.Violate("clone-render-failure", c, "%s: the original renders but its %s does not: %s", sh.name, v.what, fail)
				} else if got != want {
					r.Violate("clone-not-equal-original", c, "%s (NoFormat=%v): an unmodified clone — %s — renders differently from its original\n--- original ---\n%s\n--- clone ---\n%s", sh.name, noFormat, v.what, want, got)
				}
				r.Count("shape_clone_views_compared", 1)
			}
			// what is appended to a clone follows what the clone inherited, exactly as if it had been appended to a
			// statement built like the original
			{
				ext := func(st *jen.Statement) *jen.Statement { return st.Op(";").Id("appendedQ").Call() }
				var got, gotFail, want2, wantFail string
				if p, what := mon.Guard(func() { got, gotFail = render(ext(sh.mk().Clone())) }); p {
					gotFail = "panic: " + what
				}
				if p, what := mon.Guard(func() { want2, wantFail = render(ext(sh.mk())) }); p {
					wantFail = "panic: " + what
				}
				if (gotFail == "") != (wantFail == "") || (gotFail == "" && got != want2) {
					r.Violate("clone-corruption", c, "%s (NoFormat=%v): tokens appended to a clone render (%s)\n%s\nbut the same tokens appended to a statement built like the original render (%s)\n%s", sh.name, noFormat, mon.Trunc(gotFail, 100), got, mon.Trunc(wantFail, 100), want2)
				}
				r.Count("shape_clone_extended_compared", 1)
			}
			// appending to the clone leaves the original alone
			cl := orig.Clone()
			cl.Line().Comment("appended to the clone")
			if again, _ := render(orig); again != want {
				r.Violate("append-leaks-to-other-handle", c, "%s: after tokens were appended to a clone the original renders differently\n--- before ---\n%s\n--- after ---\n%s", sh.name, want, again)
			}
		}
		r.Eval("shape:"+sh.name, true)
	}
}

// c20CaseHeaders: a case header (with leading comments, so that the statement has spare capacity) is the original;
// every clone gets a body of its own. What one clone was given must not show in a sibling, before or after the
// siblings are rendered, nor in the original.
func c20CaseHeaders(r *mon.Run) {
	headers := []func() *jen.Statement{
		func() *jen.Statement { return jen.Case(jen.Lit(1)) },
		func() *jen.Statement { return jen.Comment("first").Line().Case(jen.Lit(1)) },
		func() *jen.Statement { return jen.Comment("a").Line().Comment("b").Line().Case(jen.Lit(1), jen.Lit(2)) },
		func() *jen.Statement { return jen.Default() },
		func() *jen.Statement { return jen.Comment("fallback").Line().Default() },
		func() *jen.Statement { return jen.Line().Line().Case(jen.Id("x")) },
	}
	inSwitch := func(cl ...*jen.Statement) string {
		items := make([]jen.Code, len(cl))
		for i, c := range cl {
			items[i] = c
		}
		out, fail := rawOf(jen.Func().Id("f").Params().Block(jen.Switch(jen.Id("v")).Block(items...)))
		return out + fail
	}
	for hi, mk := range headers {
		c := mon.Case{Gen: "case-header", Seed: r.Seed, Index: int64(hi)}
		body := func(i int) *jen.Statement { return jen.Id(fmt.Sprintf("body%dq", i)).Call() }
		// reference: every clone built from an original of its own
		var want []string
		for i := 0; i < 3; i++ {
			want = append(want, inSwitch(mk().Clone().Block(body(i))))
		}
		wantOrig := inSwitch(mk().Block(jen.Id("origq").Call()))
		// under test: one original, three clones extended one after the other, rendered in between and afterwards
		orig := mk()
		var clones []*jen.Statement
		for i := 0; i < 3; i++ {
			cl := orig.Clone().Block(body(i))
			clones = append(clones, cl)
			inSwitch(cl) // rendered as soon as it is complete
		}
		for i, cl := range clones {
			if got := inSwitch(cl); got != want[i] {
				r.Violate("append-leaks-to-other-handle", c, "case header #%d: clone %d of one original, given a Block of its own, renders\n%s\nwant (a clone of an original of its own)\n%s", hi, i, got, want[i])
			}
		}
		untouched := orig.Clone() // never appended to: it renders like its original, whatever the original becomes
		orig.Block(jen.Id("origq").Call())
		if got := inSwitch(untouched); got != wantOrig {
			r.Violate("clone-not-equal-original", c, "case header #%d: an unmodified clone taken before the original got its Block renders\n%s\nbut the original renders\n%s", hi, got, wantOrig)
		}
		if got := inSwitch(orig); got != wantOrig {
			r.Violate("clone-corruption", c, "case header #%d: the original, given its Block after three clones were extended and rendered, renders\n%s\nwant\n%s", hi, got, wantOrig)
		}
		for i, cl := range clones {
			if got := inSwitch(cl); !strings.Contains(got, fmt.Sprintf("body%dq", i)) || strings.Contains(got, fmt.Sprintf("body%dq", (i+1)%3)) {
				r.Violate("append-leaks-to-other-handle", c, "case header #%d: after the original was extended, clone %d renders\n%s", hi, i, got)
			}
		}
		r.Eval(fmt.Sprintf("case-header|%d", hi), true)
		r.Count("case_header_clone_families", 1)
	}
}

// c20DeepChain: depth, not width — a sum built as s = s.Clone().Op("+").Lit(i), 1,100 clones deep: every term is there.
func c20DeepChain(r *mon.Run) {
	c := mon.Case{Gen: "deep-chain", Seed: r.Seed}
	const depth = 1100
	s := jen.Lit(0)
	for i := 1; i <= depth; i++ {
		s = s.Clone().Op("+").Lit(i)
	}
	last := s.Clone()
	out, fail := rawOf(jen.Var().Id("sum").Op("=").Add(last))
	if fail != "" {
		r.Violate("clone-render-failure", c, "a chain of %d clones of clones does not render: %s", depth, mon.Trunc(fail, 300))
	} else {
		toks := tokenise([]byte(out))
		n, okSeq := 0, true
		for _, t := range toks {
			if v, err := strconv.Atoi(t); err == nil {
				if v != n {
					okSeq = false
				}
				n++
			}
		}
		if !okSeq || n != depth+1 {
			r.Violate("clone-corruption", c, "a sum built through %d nested clones renders %d of its %d terms (in order: %v): %s …", depth, n, depth+1, okSeq, mon.Trunc(out, 200))
		}
	}
	r.Eval("deep-chain", true)
	r.Count("deep_chain_depth", depth)
}

func runC20(r *mon.Run) {
	r.SetRule(fmt.Sprintf("%d fixed non-expression originals (case/default clauses followed by Block, select cases, if/else, for, whole switches, struct fields with tags, Dict values, generics, comments, Defs, Custom, Null/Empty) whose unmodified clone, clone of clone, clone taken after a render and clone rendered twice must render byte-identically to the original in the same context, formatted and NoFormat, and whose rendering must survive an append to a clone; then ", len(c20Shapes))+"random histories: 3-8 handles forming a tree by Clone() (one history in twelve: a chain of 35-76 clones of clones; a third of the clones are taken inside a Do callback), 10-60 steps appending 2-8 tokens with unique names (Dot, Op+Id, Add(k), Call, Index, chains — always a valid expression continuation, so handles can be rendered with Render itself) to a random handle, so that clone points with and without spare slice capacity both occur; after every step every handle is rendered with Render and inside a NoFormat File, and tokenised; offline checker against a list model admitting live and snapshot views of the original. non-trivial = history with >=1 clone; distinct by operation sequence")
	r.Assume("a clone that has been appended to may show its original as it was at clone time or as it is now (both admitted: the statement promises isolation of originals and survival of clone tokens); an unmodified clone must render exactly like its original at every step, as the statement says")
	c20NegControls(r)
	c20ShapeCases(r)
	c20CaseHeaders(r)
	c20DeepChain(r)
	n := r.Pick(2500, 30000)
	mon.Parallel(n, func(i int) { c20Case(r, int64(i)) })
}

func replayC20(r *mon.Run, c mon.Case) {
	if c.Gen == "shape" {
		c20ShapeCases(r)
		return
	}
	if c.Gen == "case-header" {
		c20CaseHeaders(r)
		return
	}
	if c.Gen == "deep-chain" {
		c20DeepChain(r)
		return
	}
	c20Case(r, c.Index)
}

func c20NegControls(r *mon.Run) {
	var base []cloneStep
	for s := int64(0); s < 100 && base == nil; s++ {
		st := c20Execute(rand.New(rand.NewSource(500 + s)))
		nclone := 0
		for _, x := range st {
			if x.Op == "clone" {
				nclone++
			}
		}
		if nclone >= 2 && len(st) > 12 && len(checkCloneHistory(st)) == 0 {
			base = st
		}
	}
	if base == nil {
		r.Inconclusive("no clean clone history found for the negative controls")
		return
	}
	deep := func() []cloneStep {
		out := make([]cloneStep, len(base))
		for i, s := range base {
			out[i] = s
			out[i].Renders = make([][]string, len(s.Renders))
			for j, t := range s.Renders {
				out[i].Renders[j] = append([]string(nil), t...)
			}
		}
		return out
	}
	judge := func(st []cloneStep) {
		for _, p := range checkCloneHistory(st) {
			r.Violate("negctl", mon.Case{Gen: "negctl"}, "%s", p)
		}
	}
	r.NegControl("clone-token-overwritten", func() {
		st := deep()
		last := len(st) - 1
		for h := len(st[last].Renders) - 1; h > 0; h-- {
			if n := len(st[last].Renders[h]); n > 0 {
				st[last].Renders[h][n-1] = "tOVERWRITTEN"
				break
			}
		}
		judge(st)
	})
	r.NegControl("original-grew-with-clone", func() {
		st := deep()
		last := len(st) - 1
		st[last].Renders[0] = append(st[last].Renders[0], "tLEAK")
		judge(st)
	})
	r.NegControl("token-dropped", func() {
		st := deep()
		for i := len(st) - 1; i > 0; i-- {
			if st[i].Op == "append" {
				h := st[i].Handle
				st[i].Renders[h] = st[i].Renders[h][:len(st[i].Renders[h])-1]
				break
			}
		}
		judge(st)
	})
}
