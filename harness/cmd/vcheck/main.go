// vcheck runs the monitor of one property against the jennifer in /repo (linked in through the
// replace directive of go.mod, so the binary is always built from /repo's working tree).
//
//	vcheck <id> --tier quick|thorough
//	vcheck <id> --replay <file>
//	vcheck --child <kind> ...        (helper processes of C07/C09)
package main

import (
	"encoding/json"
	"fmt"
	"os"
	"sort"

	"verifharness/mon"
)

type check struct {
	id     string
	level  string
	run    func(r *mon.Run)
	replay func(r *mon.Run, c mon.Case)
}

var checks = map[string]*check{}

func register(id, level string, run func(r *mon.Run), replay func(r *mon.Run, c mon.Case)) {
	checks[id] = &check{id, level, run, replay}
}

func usage() {
	var ids []string
	for id := range checks {
		ids = append(ids, id)
	}
	sort.Strings(ids)
	fmt.Fprintf(os.Stderr, "usage: vcheck <id> --tier quick|thorough | vcheck <id> --replay <file>\nchecks: %v\nhooks: %v\n", ids, hooksAvailable)
	os.Exit(2)
}

func main() {
	if len(os.Args) >= 2 && os.Args[1] == "--child" {
		childMain(os.Args[2:])
		return
	}
	if len(os.Args) < 4 {
		usage()
	}
	c := checks[os.Args[1]]
	if c == nil {
		usage()
	}
	switch os.Args[2] {
	case "--tier":
		tier := os.Args[3]
		if tier != "quick" && tier != "thorough" {
			usage()
		}
		r := mon.Start(c.id, tier, c.level)
		r.Put("hooks_available", hooksAvailable)
		c.run(r)
		raceLog(r, c.id == "C09")
		r.Finish()
	case "--replay":
		b, err := os.ReadFile(os.Args[3])
		if err != nil {
			fmt.Fprintln(os.Stderr, err)
			os.Exit(2)
		}
		var doc struct {
			Tier string   `json:"tier"`
			Seed int64    `json:"seed"`
			Case mon.Case `json:"case"`
		}
		if err := json.Unmarshal(b, &doc); err != nil {
			fmt.Fprintln(os.Stderr, err)
			os.Exit(2)
		}
		os.Setenv("VERIF_SEED", fmt.Sprint(doc.Seed))
		r := mon.Start(c.id, doc.Tier, c.level)
		r.Verbose = true
		r.SetMinNontrivial(0)
		if c.replay == nil {
			fmt.Fprintln(os.Stderr, "no replay for", c.id)
			os.Exit(2)
		}
		c.replay(r, doc.Case)
		if r.Violations() > 0 {
			fmt.Printf("replay: violation reproduced\n")
			os.Exit(1)
		}
		fmt.Printf("replay: case passes on the current tree\n")
		os.Exit(0)
	default:
		usage()
	}
}
