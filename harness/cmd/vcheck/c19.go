package main

import (
	"bytes"
	"fmt"
	"go/ast"
	"go/parser"
	"go/token"
	"strings"

	"github.com/dave/jennifer/jen"

	"verifharness/mon"
)

// C19: the "C" import is never renamed and its preamble sits directly above it. The whole combination
// matrix is enumerated (thorough) or sampled (quick); the oracle reads import declarations and their doc
// comment groups from the parsed output.

func init() {
	register("C19", "exploration", runC19, replayC19)
}

// the sixth kind repeats the first: a preamble may contain the same block twice (#endif, #endif); the last is the
// empty string (rendered as a bare // line, still part of the comment group above import "C")
var preKinds = []string{"#include <a.h>", "#include <b.h>\nvoid f() {}\n", "// #cgo LDFLAGS: -lm", "/* #include <c.h> */", "#include <d.h>\n", "#include <a.h>", ""}

type cgoCase struct {
	QualC     bool `json:"qual_c"`
	AnonC     bool `json:"anon_c"`
	Pre       int  `json:"preambles"` // bit set over preKinds
	Reversed  bool `json:"reversed"`
	Others    int  `json:"others"`
	Prefix    bool `json:"prefix"`
	Hint      int  `json:"hint"` // 0 none, 1 ImportName(C,cee), 2 ImportAlias(C,cee), 3 ImportAlias(C,.), 4 ImportNames{C:cee}
	AnonFirst bool `json:"anon_first"`
	NoFormat  bool `json:"no_format"`
}

const (
	cgoOthers = 10
	cgoHints  = 5
)

func cgoDomain() []cgoCase {
	var out []cgoCase
	b := []bool{false, true}
	for _, q := range b {
		for _, a := range b {
			for pre := 0; pre < 1<<len(preKinds); pre++ {
				for _, rev := range b {
					if rev && pre&(pre-1) == 0 {
						continue // fewer than two preambles: order is irrelevant
					}
					for others := 0; others < cgoOthers; others++ {
						for _, px := range b {
							for hint := 0; hint < cgoHints; hint++ {
								for _, af := range b {
									if af && !a {
										continue
									}
									out = append(out, cgoCase{q, a, pre, rev, others, px, hint, af, false})
								}
							}
						}
					}
				}
			}
		}
	}
	return out
}

func (cc cgoCase) preambles() []string {
	var pres []string
	for i, k := range preKinds {
		if cc.Pre&(1<<i) != 0 {
			pres = append(pres, k)
		}
	}
	if cc.Reversed {
		for i, j := 0, len(pres)-1; i < j; i, j = i+1, j-1 {
			pres[i], pres[j] = pres[j], pres[i]
		}
	}
	return pres
}

func (cc cgoCase) build() *jen.File { return cc.buildWith(true) }

// buildWith(false): the references to C are not part of the File's own code; they are rendered as a fragment with
// the File (RenderWithFile) before the File itself is rendered.
func (cc cgoCase) buildWith(qualInBody bool) *jen.File {
	f := jen.NewFile("p")
	f.NoFormat = cc.NoFormat
	if cc.Prefix {
		f.PackagePrefix = "pk"
	}
	switch cc.Hint {
	case 1:
		f.ImportName("C", "cee")
	case 2:
		f.ImportAlias("C", "cee")
	case 3:
		f.ImportAlias("C", ".")
	case 4:
		f.ImportNames(map[string]string{"C": "cee", "x.y/z": "zreal"})
	}
	if cc.AnonC && cc.AnonFirst {
		f.Anon("C")
	}
	for _, p := range cc.preambles() {
		f.CgoPreamble(p)
	}
	if cc.AnonC && !cc.AnonFirst {
		f.Anon("C")
	}
	var body []jen.Code
	switch cc.Others {
	case 1:
		body = append(body, jen.Qual("fmt", "Println").Call())
	case 2:
		body = append(body, jen.Qual("fmt", "Println").Call(), jen.Qual("os", "Exit").Call(), jen.Qual("x.y/z", "F").Call())
	case 3:
		f.ImportAlias("x.y/z", "zz")
		body = append(body, jen.Qual("x.y/z", "F").Call())
	case 4:
		f.Anon("x.y/anon")
	case 5:
		body = append(body, jen.Qual("x.y/c", "F").Call(), jen.Qual("x.y/C", "F").Call())
	case 6:
		f.ImportAlias("x.y/z", "C")
		f.ImportName("x.y/w", "C")
		body = append(body, jen.Qual("x.y/z", "F").Call(), jen.Qual("x.y/w", "F").Call())
	case 8: // paths that sort before "C": digits, upper case, punctuation
		body = append(body, jen.Qual("9fans.net/go/acme", "F").Call(), jen.Qual("B.c/d", "F").Call())
	case 9:
		f.Anon("./rel", "4d63.com/tz")
		body = append(body, jen.Qual("A/b", "F").Call())
	case 7:
		for i := 0; i < 12; i++ {
			body = append(body, jen.Qual(fmt.Sprintf("m.n/p%d", i), "F").Call())
		}
		f.Anon("a.a/first", "z.z/last")
	}
	if cc.QualC && qualInBody {
		body = append(body, jen.Qual("C", "free").Call(jen.Qual("C", "malloc").Call(jen.Lit(1))))
	}
	f.Func().Id("m").Params().Block(body...)
	if cc.QualC && !qualInBody {
		jen.Qual("C", "free").Call(jen.Qual("C", "malloc").Call(jen.Lit(1))).RenderWithFile(&bytes.Buffer{}, f)
	}
	return f
}

// otherPaths lists the non-"C" import paths the combination must end up importing.
func (cc cgoCase) otherPaths() []string {
	switch cc.Others {
	case 1:
		return []string{"fmt"}
	case 2:
		return []string{"fmt", "os", "x.y/z"}
	case 3:
		return []string{"x.y/z"}
	case 4:
		return []string{"x.y/anon"}
	case 5:
		return []string{"x.y/c", "x.y/C"}
	case 6:
		return []string{"x.y/z", "x.y/w"}
	case 7:
		out := []string{"a.a/first", "z.z/last"}
		for i := 0; i < 12; i++ {
			out = append(out, fmt.Sprintf("m.n/p%d", i))
		}
		return out
	case 8:
		return []string{"9fans.net/go/acme", "B.c/d"}
	case 9:
		return []string{"./rel", "4d63.com/tz", "A/b"}
	}
	return nil
}

func expectComment(c string) string {
	if strings.HasPrefix(c, "//") || strings.HasPrefix(c, "/*") {
		return c
	}
	if strings.Contains(c, "\n") {
		s := "/*\n" + c
		if !strings.HasSuffix(c, "\n") {
			s += "\n"
		}
		return s + "*/"
	}
	return "// " + c
}

// judgeCgo reads the output only; pres / wantC / qualC describe what was built.
func judgeCgo(src []byte, pres []string, wantC, qualC bool) []string {
	var probs []string
	fset := token.NewFileSet()
	af, err := parser.ParseFile(fset, "o.go", src, parser.ParseComments|parser.SkipObjectResolution)
	if err != nil {
		return []string{"output does not parse: " + err.Error()}
	}
	nC := 0
	for _, d := range af.Decls {
		gd, ok := d.(*ast.GenDecl)
		if !ok || gd.Tok != token.IMPORT {
			continue
		}
		for _, sp := range gd.Specs {
			is := sp.(*ast.ImportSpec)
			if is.Path.Value != `"C"` {
				continue
			}
			nC++
			if is.Name != nil {
				probs = append(probs, `"C" imported under the name `+is.Name.Name)
			}
			if len(pres) > 0 {
				if len(gd.Specs) != 1 {
					probs = append(probs, `import "C" shares its declaration with other imports although a preamble was supplied`)
				}
				doc := gd.Doc
				if doc == nil && is.Doc != nil {
					doc = is.Doc
				}
				if doc == nil {
					probs = append(probs, `no comment group directly above import "C"`)
					continue
				}
				norm := func(l []string) string {
					var o []string
					for _, x := range l {
						for _, ln := range strings.Split(x, "\n") {
							o = append(o, strings.TrimSpace(ln))
						}
					}
					return strings.Join(o, "\n")
				}
				var got, want []string
				for _, c := range doc.List {
					got = append(got, c.Text)
				}
				for _, p := range pres {
					want = append(want, expectComment(p))
				}
				if norm(got) != norm(want) {
					probs = append(probs, fmt.Sprintf("preamble comments above import \"C\" are %q, want %q (in the order given)", got, want))
				}
				if fset.Position(doc.End()).Line+1 != fset.Position(gd.Pos()).Line {
					probs = append(probs, `preamble is not immediately above import "C"`)
				}
			} else if len(gd.Specs) == 1 && len(af.Imports) > 1 {
				probs = append(probs, `import "C" is separate from the other imports although there is no preamble`)
			}
		}
	}
	if wantC && nC != 1 {
		probs = append(probs, fmt.Sprintf(`"C" imported %d times, want once`, nC))
	}
	if !wantC && nC != 0 {
		probs = append(probs, `unexpected import "C"`)
	}
	nref := 0
	bare := 0
	ast.Inspect(af, func(n ast.Node) bool {
		switch x := n.(type) {
		case *ast.SelectorExpr:
			if id, ok := x.X.(*ast.Ident); ok && (x.Sel.Name == "free" || x.Sel.Name == "malloc") {
				nref++
				if id.Name != "C" {
					probs = append(probs, "C symbol qualified by "+id.Name)
				}
			}
		case *ast.CallExpr:
			if id, ok := x.Fun.(*ast.Ident); ok && (id.Name == "free" || id.Name == "malloc") {
				bare++
			}
		}
		return true
	})
	if qualC && (nref != 2 || bare != 0) {
		probs = append(probs, fmt.Sprintf("found %d C.<sym> references and %d bare ones, want 2 and 0", nref, bare))
	}
	return probs
}

func c19Case(r *mon.Run, cc cgoCase, c mon.Case) {
	desc := fmt.Sprintf("%+v", cc)
	for mode := 0; mode < 3; mode++ {
		nf := mode == 1
		if mode == 2 && !cc.QualC {
			continue // the third mode renders the references to C as a fragment with the File first
		}
		cc.NoFormat = nf
		src, fail := renderFile(cc.buildWith(mode != 2))
		if fail != "" {
			r.Violate("cgo-render-failure", c, "%s: %s", desc, fail)
			continue
		}
		pres := cc.preambles()
		probs := judgeCgo(src, pres, cc.QualC || cc.AnonC || len(pres) > 0, cc.QualC && mode != 2)
		if mode == 2 {
			desc = fmt.Sprintf("%+v (references to C rendered with RenderWithFile before the File)", cc)
		}
		// the other imports are all there, once each (a "C" special case must not eat its neighbours)
		if af, err := parser.ParseFile(token.NewFileSet(), "o.go", src, parser.ImportsOnly); err == nil {
			got := map[string]int{}
			for _, is := range af.Imports {
				got[strings.Trim(is.Path.Value, `"`)]++
			}
			for _, p := range cc.otherPaths() {
				if got[p] != 1 {
					probs = append(probs, fmt.Sprintf("import %q appears %d times next to the cgo import, want once", p, got[p]))
				}
			}
		}
		for _, p := range probs {
			class := "cgo-import"
			if strings.Contains(p, "preamble") || strings.Contains(p, "comment group") {
				class = "cgo-preamble"
			} else if strings.Contains(p, "qualified") || strings.Contains(p, "references") {
				class = "cgo-reference"
			}
			r.Violate(class, c, "%s\ncase: %s noformat=%v\noutput:\n%s", p, desc, nf, src)
		}
		if r.Verbose {
			fmt.Printf("case %s noformat=%v\n%s\n", desc, nf, src)
		}
	}
	r.Eval(desc, cc.QualC || cc.AnonC || cc.Pre != 0)
	r.Count(fmt.Sprintf("hint=%d", cc.Hint), 1)
	r.Count(fmt.Sprintf("others=%d", cc.Others), 1)
	r.Count(fmt.Sprintf("preambles=%d", len(cc.preambles())), 1)
}

func runC19(r *mon.Run) {
	dom := cgoDomain()
	r.SetRule(fmt.Sprintf("matrix {Qual C, Anon C (before/after the preambles)} x 128 subsets of 7 preamble kinds (one-line, multi-line, raw //, raw /* */, one line with a trailing newline, the first block once more, the empty string) in 2 orders x 10 other-import shapes (none, one std, several, aliased, anonymous, bases c/C, hints that ask for the name C, 14 imports, paths that sort before \"C\") x prefix x 5 hint kinds naming \"C\" (none, ImportName, ImportAlias, dot, ImportNames) = %d combinations, each rendered formatted, NoFormat and (when C is referenced) with the references rendered as a fragment with the File beforehand; enumerated completely in both tiers. non-trivial = the combination involves \"C\" at all", len(dom)))
	c19NegControls(r)
	r.SetExhaustive(true)
	mon.Parallel(len(dom), func(i int) { c19Case(r, dom[i], mon.Case{Gen: "matrix", Seed: r.Seed, Index: int64(i)}) })
	r.Sample(map[string]interface{}{"case": dom[len(dom)/3]})
}

func replayC19(r *mon.Run, c mon.Case) {
	dom := cgoDomain()
	if int(c.Index) < len(dom) {
		c19Case(r, dom[c.Index], c)
	}
}

func c19NegControls(r *mon.Run) {
	pres := []string{"#include <a.h>", "// #cgo LDFLAGS: -lm"}
	ctl := func(name, src string, pres []string, qual bool) {
		r.NegControl(name, func() {
			for _, p := range judgeCgo([]byte(src), pres, true, qual) {
				r.Violate("negctl", mon.Case{Gen: "negctl"}, "%s", p)
			}
		})
	}
	ctl("c-underscore", "package p\n\nimport _ \"C\"\n", nil, false)
	ctl("c-aliased-and-refs-renamed", "package p\n\nimport pk_C \"C\"\n\nfunc m() { pk_C.free(pk_C.malloc(1)) }\n", nil, true)
	ctl("preamble-not-adjacent", "package p\n\n// #include <a.h>\n// #cgo LDFLAGS: -lm\n\nimport \"C\"\n", pres, false)
	ctl("preamble-order-swapped", "package p\n\n// #cgo LDFLAGS: -lm\n// #include <a.h>\nimport \"C\"\n", pres, false)
	ctl("c-in-common-block-despite-preamble", "package p\n\nimport (\n\t// #include <a.h>\n\t// #cgo LDFLAGS: -lm\n\t\"C\"\n\t\"fmt\"\n)\nvar _ = fmt.Sprint\n", pres, false)
	ctl("c-separate-without-preamble", "package p\n\nimport \"fmt\"\n\nimport \"C\"\n\nvar _ = fmt.Sprint\n", nil, false)
	ctl("bare-c-symbols", "package p\n\nimport \"C\"\n\nfunc m() { free(malloc(1)) }\n", nil, true)
	r.NegControl("sanity-inverse", func() {
		if len(judgeCgo([]byte("package p\n\nimport \"fmt\"\n\n// #include <a.h>\n// #cgo LDFLAGS: -lm\nimport \"C\"\n\nfunc m() { C.free(C.malloc(1)); fmt.Println() }\n"), pres, true, true)) == 0 {
			r.Violate("negctl", mon.Case{Gen: "negctl"}, "accepted (expected)")
		}
	})
}
