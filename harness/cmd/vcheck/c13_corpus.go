package main

import (
	"bytes"
	"fmt"

	"verifharness/a2j"
	"verifharness/mon"
)

// C13 part 2: null-ish items injected at every list of real programs. The same program is built twice
// from the same translator seed (the nulls knob has its own PRNG stream, so nothing else changes): the
// renderings must be byte-identical and must re-parse to the source AST.

func c13CorpusCase(r *mon.Run, ci corpusItem) {
	name, src := ci.source()
	c := mon.Case{Gen: "corpus", Seed: r.Seed, Extra: mon.J(ci)}
	if len(src) == 0 {
		return
	}
	plain := a2j.Build(name, src, a2j.Roots(), ci.Seed, a2j.Knobs{})
	if plain.Skip != "" || plain.Panic != "" {
		r.Count("corpus.skip", 1)
		return
	}
	pout, perr, ppanic := plain.Render()
	if perr != "" || ppanic != "" {
		r.Count("corpus.plain_render_failed(C01's business)", 1)
		return
	}
	inj := a2j.Build(name, src, a2j.Roots(), ci.Seed, a2j.Knobs{Nulls: true})
	if inj.Panic != "" {
		r.Violate("corpus-null-build-panic", c, "%s: building with null items panicked: %s", shortPath(name), mon.Trunc(inj.Panic, 800))
		return
	}
	iout, ierr, ipanic := inj.Render()
	n := inj.Tr.Stats["inject"]
	switch {
	case ipanic != "":
		r.Violate("corpus-null-panic", c, "%s: rendering with %d injected null items panicked: %s", shortPath(name), n, ipanic)
	case ierr != "":
		r.Violate("corpus-null-error", c, "%s: rendering with %d injected null items failed: %s", shortPath(name), n, ierr)
	case !bytes.Equal(iout, pout):
		d := inj.Compare(iout)
		r.Violate("corpus-null-changes-output", c, "%s: %d injected null items change the rendered code (AST comparison with the source: %q)\nfirst difference at byte %d", shortPath(name), n, d, firstDiff(iout, pout))
		if r.Verbose {
			fmt.Printf("--- with nulls ---\n%s\n--- without ---\n%s\n", iout, pout)
		}
	}
	r.Eval("corpus|"+name+fmt.Sprint(ci.Seed), n > 0)
	r.Count("corpus.files", 1)
	r.Count("corpus.null_items_injected", int64(n))
	for k, v := range inj.Tr.Stats {
		if len(k) > 5 && k[:5] == "list." {
			r.Count("corpus.lists."+k[5:], int64(v))
		}
	}
}

func firstDiff(a, b []byte) int {
	for i := 0; i < len(a) && i < len(b); i++ {
		if a[i] != b[i] {
			return i
		}
	}
	return min(len(a), len(b))
}

func c13Corpus(r *mon.Run) {
	items := corpusList(r, "C13", 900, 200, 3000, 1)
	mon.Parallel(len(items), func(i int) { c13CorpusCase(r, items[i]) })
}

func c13CorpusReplay(r *mon.Run, c mon.Case) {
	var ci corpusItem
	if err := jsonUnmarshal(c.Extra, &ci); err == nil {
		c13CorpusCase(r, ci)
	}
}
