package main

import "verifharness/mon"

func c13Corpus(r *mon.Run)                   {}
func c13CorpusReplay(r *mon.Run, c mon.Case) {}
