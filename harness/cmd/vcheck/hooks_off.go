//go:build !verif

package main

import "github.com/dave/jennifer/jen"

const hooksAvailable = false

func fileState(f *jen.File) (imports, hints map[string][2]string) { return nil, nil }

func dumpTree(c jen.Code) string { return "" }

func newProbe(id int, inner jen.Code, onNull func(id int), onRender func(id int) error) jen.Code {
	return inner
}
