package main

import (
	"crypto/sha256"
	"encoding/hex"
	"fmt"
	"math/rand"
	"os"
	"os/exec"
	"path/filepath"
	"strconv"
	"strings"
	"sync"

	"github.com/dave/jennifer/jen"

	"verifharness/a2j"
	"verifharness/mon"
	"verifharness/scen"
)

// C09: Files do not interfere; safe to build concurrently. The binary of this check is built with -race.
// Every job (build a File + render it) is run in several global histories — sequential permutations,
// build-all-then-render, render-twice-with-others-in-between, 16 goroutines behind a barrier — and, for a
// seeded subset, alone in a fresh process; all outputs of a job must agree. The race detector's log is
// read back at the end.

func init() {
	register("C09", "exploration", runC09, replayC09)
	children["c09"] = c09Child
	children["c09perm"] = c09PermChild
}

type c09Job struct {
	Kind string     `json:"kind"`
	Seed int64      `json:"seed"`
	Item corpusItem `json:"item"`
}

func (j c09Job) desc() string {
	if j.Kind == "corpus" {
		return "corpus " + shortPath(j.Item.Path) + fmt.Sprintf(" gen=%d", j.Item.Gen)
	}
	return fmt.Sprintf("%s seed=%d", j.Kind, j.Seed)
}

// sharedTable is one name table (the kind gennames produces) handed to many Files of this process, as a
// generator would do; it is read-only for the harness.
var sharedTable = func() map[string]string {
	m := map[string]string{}
	for i := 0; i < 300; i++ {
		m[fmt.Sprintf("tbl.io/mod%d/store-go", i)] = fmt.Sprintf("store%d", i)
	}
	m["tbl.io/mod0/store-go"] = "store"
	return m
}()

var sharedTableCopy = func() map[string]string {
	m := map[string]string{}
	for k, v := range sharedTable {
		m[k] = v
	}
	return m
}()

func (j c09Job) build() *jen.File {
	switch j.Kind {
	case "table":
		// Files sharing one big ImportNames table; some of them add an alias of their own for a path of the table
		r := rand.New(rand.NewSource(j.Seed))
		f := jen.NewFile("p")
		f.ImportNames(sharedTable)
		if r.Intn(3) == 0 {
			// a File's own additions to the table it was given: they are this File's, not the table's
			f.ImportNames(map[string]string{fmt.Sprintf("tbl.io/mod%d/store-go", r.Intn(4)): fmt.Sprintf("own%d", r.Intn(3)), "tbl.io/extra/q": "extraq"})
		}
		k := r.Intn(4)
		p := fmt.Sprintf("tbl.io/mod%d/store-go", k)
		if r.Intn(2) == 0 {
			f.ImportAlias(p, fmt.Sprintf("db%d", r.Intn(3)))
		}
		f.Var().Id("v").Op("=").Qual(p, "Open")
		f.Var().Id("w").Op("=").Qual(fmt.Sprintf("tbl.io/mod%d/store-go", r.Intn(4)), "Open")
		return f
	case "scenario":
		k := scen.DefaultKnobs()
		k.MaxPaths = 10
		return scen.Generate(rand.New(rand.NewSource(j.Seed)), k).Build()
	case "recipe":
		return c02Build(j.Seed, true).f
	case "dict":
		f, _, _ := c07Recipe(int(uint64(j.Seed)%c07Kinds), j.Seed, nil)
		return f
	default:
		name, src := j.Item.source()
		if len(src) == 0 {
			return nil
		}
		b := a2j.Build(name, src, a2j.Roots(), j.Item.Seed, a2j.Knobs{Forms: true})
		if b.Skip != "" || b.Panic != "" {
			return nil
		}
		return b.File
	}
}

// run executes the job in the current process and returns a digest of everything it rendered: the File,
// and a small fragment rendered with Statement.Render (GoString's path).
func (j c09Job) run() string {
	h := outHash(j.build())
	q := rand.New(rand.NewSource(j.Seed ^ j.Item.Seed))
	p := []string{"a.b/x", "c.d/x", "math/rand", "crypto/rand", "e.f/y/", "g.h/y//", "i.j/y", "k.l/z/", "m.n/z"}[q.Intn(9)]
	fr := jen.Var().Id("v").Op("=").Qual(p, "Sym")
	var gs string
	if pn, what := mon.Guard(func() { gs = fr.GoString() }); pn {
		gs = "panic:" + what
	}
	g := sha256.Sum256([]byte(gs))
	return h + "+" + hex.EncodeToString(g[:6])
}

func outHash(f *jen.File) string {
	if f == nil {
		return "skip"
	}
	src, fail := renderFile(f)
	if fail != "" {
		h := sha256.Sum256([]byte(fail))
		return "FAIL-" + hex.EncodeToString(h[:8])
	}
	h := sha256.Sum256(src)
	return hex.EncodeToString(h[:10])
}

func c09Jobs(r *mon.Run) []c09Job {
	n := r.Pick(400, 3000)
	var jobs []c09Job
	items := corpusList(r, "C09", 0, 0, 0, 1)
	rnd := r.Rand("C09/jobs", 0)
	perm := rnd.Perm(len(items))
	for i := 0; i < n; i++ {
		seed := mon.DeriveSeed(r.Seed, "C09/job", int64(i))
		if i%11 == 10 {
			jobs = append(jobs, c09Job{Kind: "table", Seed: seed})
			continue
		}
		switch i % 4 {
		case 0:
			jobs = append(jobs, c09Job{Kind: "scenario", Seed: seed})
		case 1:
			jobs = append(jobs, c09Job{Kind: "recipe", Seed: seed})
		case 2:
			jobs = append(jobs, c09Job{Kind: "dict", Seed: seed})
		default:
			if len(items) > 0 {
				jobs = append(jobs, c09Job{Kind: "corpus", Item: items[perm[i%len(perm)]]})
			}
		}
	}
	return jobs
}

type c09Results struct {
	mu   sync.Mutex
	outs []map[string][]string // per job: output hash -> histories in which it was seen
}

func (cr *c09Results) note(i int, h, history string) {
	cr.mu.Lock()
	if cr.outs[i] == nil {
		cr.outs[i] = map[string][]string{}
	}
	if len(cr.outs[i][h]) < 4 {
		cr.outs[i][h] = append(cr.outs[i][h], history)
	}
	cr.mu.Unlock()
}

func runC09(r *mon.Run) {
	r.SetRule("jobs = build a File (import scenario / random composition / map-rich recipe / corpus program with random forms) and render it; every job runs in: 3 (quick) or 8 (thorough) sequential permutations, a build-all-then-render-in-another-order pass, a render-A / build+render-others / render-A-again pass, and R concurrent rounds on 16 goroutines released by a barrier (this binary is built with -race); a seeded subset also runs alone in a fresh process. All outputs of one job must be equal. Shared sub-statements are added to Files with different local path / prefix / dot-import settings, rendered one after another, and compared with fresh copies. non-trivial = every job; distinct by job")
	r.Assume("the harness shares nothing between jobs except read-only inputs; each goroutine writes only its own result slot; no probes are planted in this binary's workloads")
	jobs := c09Jobs(r)
	res := &c09Results{outs: make([]map[string][]string, len(jobs))}
	// concurrent rounds come first: state that is filled lazily (caches, counters) is then written for the
	// first time while 16 goroutines are running, which is where an unsynchronised global shows up as a race
	rounds := r.Pick(3, 8)
	const G = 16
	for round := 0; round < rounds; round++ {
		order := r.Rand("C09/conc", int64(round)).Perm(len(jobs))
		var wg sync.WaitGroup
		start := make(chan struct{})
		hashes := make([]string, len(jobs))
		for g := 0; g < G; g++ {
			wg.Add(1)
			go func(g int) {
				defer wg.Done()
				<-start
				for k := g; k < len(order); k += G {
					i := order[k]
					hashes[i] = jobs[i].run()
				}
			}(g)
		}
		close(start)
		wg.Wait()
		for i, h := range hashes {
			res.note(i, h, fmt.Sprintf("concurrent round %d (16 goroutines)", round))
		}
	}
	// sequential permutations
	nperm := r.Pick(3, 8)
	for p := 0; p < nperm; p++ {
		order := r.Rand("C09/perm", int64(p)).Perm(len(jobs))
		for _, i := range order {
			if p == 1 && i%10 == 0 {
				poison(int64(i)) // a recovered contract panic must not leak into later renders
			}
			res.note(i, jobs[i].run(), fmt.Sprintf("sequential permutation %d", p))
		}
	}
	// build all, then render in another order
	{
		files := make([]*jen.File, len(jobs))
		for i := range jobs {
			files[i] = jobs[i].build()
		}
		for _, i := range r.Rand("C09/perm", 100).Perm(len(jobs)) {
			res.note(i, outHash(files[i])+"+"+strings.SplitN(jobs[i].run(), "+", 2)[1], "built first, rendered later in another order")
		}
	}
	// render A, do other things, render A again (same File object: also a C08 flavour, judged only on equality with the other histories)
	{
		rnd := r.Rand("C09/again", 0)
		for k := 0; k < len(jobs)/4; k++ {
			i, j := rnd.Intn(len(jobs)), rnd.Intn(len(jobs))
			h1 := jobs[i].run()
			jobs[j].run()
			res.note(i, h1, "rendered before another job")
			res.note(i, jobs[i].run(), "fresh build after another job")
		}
	}
	// concurrent Save: independent Files (many with the same package name) saved to different names in one directory
	{
		dir := filepath.Join(mon.VerifDir, "bin", fmt.Sprintf("c09-save-%d", os.Getpid()))
		os.MkdirAll(dir, 0o755)
		files := make([]*jen.File, len(jobs))
		want := make([]string, len(jobs))
		for i := range jobs {
			files[i] = jobs[i].build()
			if files[i] != nil {
				if src, fail := renderFile(jobs[i].build()); fail == "" {
					want[i] = string(src)
				} else {
					files[i] = nil
				}
			}
		}
		errs := make([]string, len(jobs))
		var wg sync.WaitGroup
		start := make(chan struct{})
		for g := 0; g < G; g++ {
			wg.Add(1)
			go func(g int) {
				defer wg.Done()
				<-start
				for i := g; i < len(jobs); i += G {
					if files[i] == nil {
						continue
					}
					path := filepath.Join(dir, fmt.Sprintf("f%d.go", i))
					var err error
					if p, what := mon.Guard(func() { err = files[i].Save(path) }); p {
						errs[i] = "panic: " + what
					} else if err != nil {
						errs[i] = "error: " + err.Error()
					} else if b, rerr := os.ReadFile(path); rerr != nil || string(b) != want[i] {
						errs[i] = fmt.Sprintf("the saved file (%d bytes) differs from the File's own rendering (%d bytes)", len(b), len(want[i]))
					}
				}
			}(g)
		}
		close(start)
		wg.Wait()
		saved := 0
		for i, e := range errs {
			if files[i] != nil {
				saved++
			}
			if e != "" {
				r.Violate("concurrent-save-interferes", mon.Case{Gen: "job", Seed: r.Seed, Index: int64(i)}, "job %s saved concurrently with other Files into one directory: %s", jobs[i].desc(), e)
			}
		}
		left, _ := os.ReadDir(dir)
		if len(left) != saved {
			r.Violate("concurrent-save-interferes", mon.Case{Gen: "save-dir", Seed: r.Seed}, "%d Files were saved but the directory holds %d entries (stray temporary files?)", saved, len(left))
		}
		os.RemoveAll(dir)
		r.Count("files_saved_concurrently", int64(saved))
	}
	// the table handed to the Files is the caller's: no File may have written to it
	{
		bad := len(sharedTable) != len(sharedTableCopy)
		for k, v := range sharedTableCopy {
			if sharedTable[k] != v {
				bad = true
			}
		}
		if bad {
			r.Violate("shared-table-modified", mon.Case{Gen: "table", Seed: r.Seed}, "the name table passed to ImportNames of many Files was modified (%d entries, was %d)", len(sharedTable), len(sharedTableCopy))
		}
	}
	r.Put("goroutines", G)
	r.Put("concurrent_rounds", rounds)
	r.Put("sequential_permutations", nperm)
	// alone in a fresh process
	nchild := r.Pick(40, 400)
	bin := os.Getenv("VERIF_BIN")
	if bin == "" {
		bin, _ = os.Executable()
	}
	childFailed := 0
	{
		idxs := r.Rand("C09/children", 0).Perm(len(jobs))[:min(nchild, len(jobs))]
		out := make([]string, len(idxs))
		mon.ParallelW(len(idxs), 8, func(k int) {
			j := jobs[idxs[k]]
			cmd := exec.Command(bin, "--child", "c09", j.Kind, strconv.FormatInt(j.Seed, 10), j.Item.Path, strconv.FormatInt(j.Item.Gen, 10), strconv.FormatInt(j.Item.Seed, 10))
			cmd.Env = append(os.Environ(), "GORACE=halt_on_error=0 exitcode=0")
			b, err := cmd.Output()
			if err != nil {
				out[k] = ""
				return
			}
			out[k] = strings.TrimSpace(string(b))
		})
		for k, i := range idxs {
			if out[k] == "" {
				childFailed++
				continue
			}
			res.note(i, out[k], "alone in a fresh process")
		}
	}
	if childFailed > 0 {
		r.Inconclusive(fmt.Sprintf("%d isolated child processes failed to run", childFailed))
	}
	r.Put("isolated_processes", nchild-childFailed)
	// the whole job list in fresh processes, each in its own order: state that is filled by whichever job
	// comes first (caches, counters) shows up as a difference between processes
	{
		jf := filepath.Join(mon.VerifDir, "bin", fmt.Sprintf("c09-jobs-%d.json", os.Getpid()))
		os.WriteFile(jf, mon.J(jobs), 0o644)
		defer os.Remove(jf)
		nproc := r.Pick(6, 12)
		outs := make([]string, nproc)
		mon.ParallelW(nproc, 6, func(k int) {
			cmd := exec.Command(bin, "--child", "c09perm", jf, strconv.FormatInt(mon.DeriveSeed(r.Seed, "C09/childperm", int64(k)), 10))
			cmd.Env = append(os.Environ(), "GORACE=halt_on_error=0 exitcode=0")
			b, err := cmd.Output()
			if err == nil {
				outs[k] = string(b)
			}
		})
		okProcs := 0
		for k, o := range outs {
			if o == "" {
				childFailed++
				continue
			}
			okProcs++
			for _, line := range strings.Split(strings.TrimSpace(o), "\n") {
				parts := strings.SplitN(line, " ", 2)
				if len(parts) == 2 {
					i, _ := strconv.Atoi(parts[0])
					if i < len(jobs) {
						res.note(i, parts[1], fmt.Sprintf("fresh process %d running all jobs in its own order", k))
					}
				}
			}
		}
		r.Put("whole_list_processes", okProcs)
		if okProcs == 0 {
			r.Inconclusive("no whole-list child process ran")
		}
	}
	// verdict per job
	for i, m := range res.outs {
		c := mon.Case{Gen: "job", Seed: r.Seed, Index: int64(i)}
		if len(m) > 1 {
			var sb strings.Builder
			for h, hist := range m {
				fmt.Fprintf(&sb, "  output %s in: %s\n", h, strings.Join(hist, "; "))
			}
			r.Violate("output-depends-on-other-files", c, "job %s rendered %d different outputs depending on what else was built or rendered:\n%s", jobs[i].desc(), len(m), sb.String())
		}
		skipped := false
		for h := range m {
			if h == "skip" {
				skipped = true
			}
		}
		if !skipped {
			r.Eval(jobs[i].desc(), true)
			r.Count("jobs."+jobs[i].Kind, 1)
		}
	}
	c09Sharing(r)
	c09NegControls(r)
	r.Sample(map[string]interface{}{"job": jobs[0].desc()})
	r.Sample(map[string]interface{}{"job": jobs[len(jobs)-1].desc()})
}

// c09Sharing: Code values shared by Files rendered one after another render in each File according to that
// File's own imports and settings.
func c09Sharing(r *mon.Run) {
	n := r.Pick(600, 8000)
	type setting struct {
		name string
		mk   func() *jen.File
	}
	paths := []string{"a.b/x", "c.d/x", "my/local", "fmt", "math/rand", "crypto/rand", "e.f/y/", "g.h/z/"}
	settings := []setting{
		{"plain", func() *jen.File { return jen.NewFile("p") }},
		{"local my/local", func() *jen.File { return jen.NewFilePathName("my/local", "p") }},
		{"local a.b/x", func() *jen.File { return jen.NewFilePath("a.b/x") }},
		{"prefix", func() *jen.File { f := jen.NewFile("p"); f.PackagePrefix = "pk"; return f }},
		{"dot a.b/x", func() *jen.File { f := jen.NewFile("p"); f.ImportAlias("a.b/x", "."); return f }},
		{"dot fmt + alias", func() *jen.File {
			f := jen.NewFile("p")
			f.ImportAlias("fmt", ".")
			f.ImportAlias("c.d/x", "xx")
			return f
		}},
		{"names", func() *jen.File {
			f := jen.NewFile("p")
			f.ImportName("a.b/x", "xreal")
			f.ImportName("c.d/x", "xreal")
			return f
		}},
		{"noformat", func() *jen.File { f := jen.NewFile("p"); f.NoFormat = true; return f }},
	}
	mkShared := func(rnd *rand.Rand) func() *jen.Statement {
		seed := rnd.Int63()
		return func() *jen.Statement {
			q := rand.New(rand.NewSource(seed))
			qual := func() *jen.Statement { p := paths[q.Intn(len(paths))]; return jen.Qual(p, "Sym") }
			switch q.Intn(5) {
			case 0:
				return jen.Var().Id("v").Op("=").Add(qual()).Op("+").Add(qual())
			case 1:
				return jen.Func().Id("f").Params().Block(jen.Switch(qual()).Block(jen.Case(qual()).Block(jen.Return()), jen.Default().Block()))
			case 2:
				return jen.Var().Id("m").Op("=").Map(jen.Int()).Int().Values(jen.Dict{qual(): jen.Lit(1), qual().Clone().Op("+").Lit(1): qual()})
			case 3:
				return jen.Type().Id("T").Struct(jen.Id("A").Add(qual()).Tag(map[string]string{"b": "1", "a": "2"}), jen.Id("B").Index().Add(qual()))
			default:
				return jen.Func().Id("g").Params(jen.Id("a").Add(qual())).Add(qual()).Block(jen.Return(qual().Call(jen.Id("a"))))
			}
		}
	}
	mon.ParallelW(n, 1, func(i int) { // sequential by design ("rendered one after another")
		rnd := r.Rand("C09/share", int64(i))
		mk := mkShared(rnd)
		shared := mk()
		k := 2 + rnd.Intn(3)
		var seq []string
		c := mon.Case{Gen: "sharing", Seed: r.Seed, Index: int64(i)}
		for j := 0; j < k; j++ {
			s := settings[rnd.Intn(len(settings))]
			seq = append(seq, s.name)
			fa := s.mk()
			fa.Add(shared)
			fb := s.mk()
			fb.Add(mk()) // a fresh, identical sub-statement
			ha, hb := outHash(fa), outHash(fb)
			if ha != hb {
				r.Violate("shared-code-renders-by-other-file", c, "a statement shared between Files rendered in File #%d (%s) differently from a fresh identical statement (after being rendered in %v)", j, s.name, seq[:j])
				break
			}
		}
		// a shared signature continued by every File with a body of its own: all Files are built first, then rendered
		// (what one File chained onto its copy of the shared statement must not show in another File)
		{
			extra := rnd.Intn(7)
			mkSig := func() *jen.Statement {
				sig := jen.Func().Id("h").Params()
				for t := 0; t < extra; t++ {
					sig.Op("*")
				}
				return sig.Qual(paths[extra%len(paths)], "T")
			}
			sig := mkSig()
			type pair struct {
				a, b *jen.File
				name string
			}
			var built []pair
			for j := 0; j < k; j++ {
				st := settings[rnd.Intn(len(settings))]
				fa, fb := st.mk(), st.mk()
				fa.Add(sig).Block(jen.Id(fmt.Sprintf("own%dq", j)).Call(), jen.Return(jen.Nil()))
				fb.Add(mkSig()).Block(jen.Id(fmt.Sprintf("own%dq", j)).Call(), jen.Return(jen.Nil()))
				built = append(built, pair{fa, fb, st.name})
			}
			for j, pr := range built {
				if outHash(pr.a) != outHash(pr.b) {
					r.Violate("shared-code-renders-by-other-file", c, "a signature statement (%d tokens) shared by %d Files, each of which chained a body of its own onto f.Add(shared): File #%d (%s) renders differently from the same File built with a fresh identical signature", len(*sig), k, j, pr.name)
					break
				}
			}
			r.Count("shared_signature_sequences", 1)
		}
		// one argument slice (with nil entries in front of real ones) given to list constructs of several Files
		{
			args := []jen.Code{jen.Id("ctx"), nil, jen.Qual(paths[rnd.Intn(len(paths))], "Req"), jen.Null(), nil, jen.Lit(i)}
			fresh := func() []jen.Code { return append([]jen.Code(nil), args...) }
			snapshot := fresh()
			for j := 0; j < k; j++ {
				st := settings[rnd.Intn(len(settings))]
				fa, fb := st.mk(), st.mk()
				fa.Var().Id("v").Op("=").Id("send").Call(args...)
				fa.Var().Id("w").Op("=").Index().Interface().Values(args...)
				fa.Var().Id("t").Id("G").Types(args...)
				cp := fresh()
				copy(cp, snapshot)
				fb.Var().Id("v").Op("=").Id("send").Call(cp...)
				fb.Var().Id("w").Op("=").Index().Interface().Values(append([]jen.Code(nil), cp...)...)
				fb.Var().Id("t").Id("G").Types(append([]jen.Code(nil), cp...)...)
				if outHash(fa) != outHash(fb) {
					r.Violate("shared-code-renders-by-other-file", c, "an argument slice (nil entries in front of real items) shared by the list constructs of several Files: File #%d (%s) renders differently from the same File built from a private copy of the slice", j, st.name)
					break
				}
			}
			r.Count("shared_argument_slice_sequences", 1)
		}
		r.Eval(fmt.Sprintf("share|%d|%v", i, seq), true)
		r.Count("sharing_sequences", 1)
	})
}

func c09NegControls(r *mon.Run) {
	// the per-job comparison is set cardinality over recorded outputs
	r.NegControl("output-varies-with-history", func() {
		cr := &c09Results{outs: make([]map[string][]string, 1)}
		cr.note(0, "aaaa", "sequential permutation 0")
		cr.note(0, "bbbb", "concurrent round 1")
		if len(cr.outs[0]) > 1 {
			r.Violate("negctl", mon.Case{Gen: "negctl"}, "two outputs")
		}
	})
}

// raceLog reads what the race detector reported for this process (GORACE log_path set by run.sh). It runs
// at the end of every check whose binary was built with -race (always C09; C08 and C20 in the thorough tier).
func raceLog(r *mon.Run, required bool) {
	if !raceEnabled {
		if required {
			r.Inconclusive("this binary was not built with -race")
		}
		return
	}
	logPath := ""
	for _, kv := range strings.Fields(os.Getenv("GORACE")) {
		if strings.HasPrefix(kv, "log_path=") {
			logPath = strings.TrimPrefix(kv, "log_path=")
		}
	}
	if logPath == "" {
		r.Inconclusive("GORACE log_path not set: race reports cannot be read back")
		return
	}
	files, _ := filepath.Glob(logPath + ".*")
	reports := 0
	seen := map[string]bool{}
	for _, f := range files {
		if !strings.HasSuffix(f, "."+strconv.Itoa(os.Getpid())) {
			continue
		}
		b, _ := os.ReadFile(f)
		for _, blk := range strings.Split(string(b), "==================") {
			if !strings.Contains(blk, "WARNING: DATA RACE") {
				continue
			}
			reports++
			// de-duplicate by the first jennifer frames of the two accesses
			var frames []string
			for _, l := range strings.Split(blk, "\n") {
				l = strings.TrimSpace(l)
				if strings.HasPrefix(l, "github.com/dave/jennifer/jen.") {
					frames = append(frames, strings.SplitN(l, "(", 2)[0])
					if len(frames) == 2 {
						break
					}
				}
			}
			key := strings.Join(frames, " <-> ")
			if len(frames) == 0 {
				// a race between harness goroutines, no jennifer code involved: the monitor is at fault, the
				// property is not refuted
				r.Inconclusive("race report without any jennifer frame (harness fault): " + mon.Trunc(blk, 600))
				continue
			}
			if !seen[key] {
				seen[key] = true
				r.Violate("data-race", mon.Case{Gen: "race"}, "race detector report (%s):\n%s", key, mon.Trunc(blk, 3000))
			}
		}
		os.Remove(f)
	}
	r.Put("race_detector", "on (go build -race)")
	r.Put("race_reports", reports)
	r.Put("race_reports_distinct", len(seen))
}

func replayC09(r *mon.Run, c mon.Case) {
	jobs := c09Jobs(r)
	if c.Gen == "job" && int(c.Index) < len(jobs) {
		j := jobs[c.Index]
		fmt.Println("job:", j.desc())
		src, fail := renderFile(j.build())
		fmt.Printf("--- rendered alone in this process (%s) ---\n%s\n", fail, src)
		fmt.Println("re-run the whole check to reproduce the interference (it depends on what else runs in the process)")
	}
}

func c09Child(args []string) {
	j := c09Job{Kind: args[0]}
	j.Seed, _ = strconv.ParseInt(args[1], 10, 64)
	j.Item.Path = args[2]
	j.Item.Gen, _ = strconv.ParseInt(args[3], 10, 64)
	j.Item.Seed, _ = strconv.ParseInt(args[4], 10, 64)
	fmt.Println(j.run())
}

func c09PermChild(args []string) {
	b, err := os.ReadFile(args[0])
	if err != nil {
		os.Exit(2)
	}
	var jobs []c09Job
	if err := jsonUnmarshal(b, &jobs); err != nil {
		os.Exit(2)
	}
	seed, _ := strconv.ParseInt(args[1], 10, 64)
	var sb strings.Builder
	for _, i := range rand.New(rand.NewSource(seed)).Perm(len(jobs)) {
		fmt.Fprintf(&sb, "%d %s\n", i, jobs[i].run())
	}
	fmt.Print(sb.String())
}
