package main

import (
	"fmt"
	"go/ast"
	"go/parser"
	"go/token"
	"math/rand"
	"reflect"
	"sort"
	"strconv"
	"strings"

	"github.com/dave/jennifer/jen"

	"verifharness/mon"
)

// C17: struct tags round-trip through reflect.StructTag (O5). Tag maps are rendered 1,000 fields per
// struct; each field's tag literal is unquoted and every key looked up.

func init() {
	register("C17", "exploration", runC17, replayC17)
}

// tagKeys lists the keys of a conventional tag string in order of appearance (same walk as reflect).
func tagKeys(tag string) (keys []string, wellFormed bool) {
	for tag != "" {
		i := 0
		for i < len(tag) && tag[i] == ' ' {
			i++
		}
		tag = tag[i:]
		if tag == "" {
			break
		}
		i = 0
		for i < len(tag) && tag[i] > ' ' && tag[i] != ':' && tag[i] != '"' && tag[i] != 0x7f {
			i++
		}
		if i == 0 || i+1 >= len(tag) || tag[i] != ':' || tag[i+1] != '"' {
			return keys, false
		}
		name := tag[:i]
		tag = tag[i+1:]
		i = 1
		for i < len(tag) && tag[i] != '"' {
			if tag[i] == '\\' {
				i++
			}
			i++
		}
		if i >= len(tag) {
			return keys, false
		}
		tag = tag[i+1:]
		keys = append(keys, name)
	}
	return keys, true
}

func judgeTagSource(src []byte, maps []map[string]string) (problems map[int]string, fatal string) {
	problems = map[int]string{}
	fset := token.NewFileSet()
	af, err := parser.ParseFile(fset, "t.go", src, parser.SkipObjectResolution)
	if err != nil {
		return nil, "does not parse: " + err.Error()
	}
	var st *ast.StructType
	ast.Inspect(af, func(n ast.Node) bool {
		if s, ok := n.(*ast.StructType); ok && st == nil {
			st = s
		}
		return st == nil
	})
	if st == nil || len(st.Fields.List) != len(maps) {
		return nil, fmt.Sprintf("struct has %d fields, want %d", nFields(st), len(maps))
	}
	for i, fld := range st.Fields.List {
		m := maps[i]
		if len(fld.Names) != 1 || fld.Names[0].Name != fmt.Sprintf("F%d", i) {
			return problems, fmt.Sprintf("field %d is not F%d: a tag leaked into the code", i, i)
		}
		if id, ok := fld.Type.(*ast.Ident); !ok || id.Name != "int" {
			problems[i] = "field type is not int any more"
			continue
		}
		if len(m) == 0 {
			if fld.Tag != nil {
				problems[i] = "empty map rendered a tag " + fld.Tag.Value
			}
			continue
		}
		if fld.Tag == nil {
			problems[i] = "no tag rendered"
			continue
		}
		if fld.Tag.Kind != token.STRING {
			problems[i] = "tag is not a string literal"
			continue
		}
		val, err := strconv.Unquote(fld.Tag.Value)
		if err != nil {
			problems[i] = "tag literal does not unquote: " + err.Error()
			continue
		}
		stag := reflect.StructTag(val)
		var bad []string
		for k, v := range m {
			got, ok := stag.Lookup(k)
			if !ok {
				bad = append(bad, fmt.Sprintf("key %q not found", k))
			} else if got != v {
				bad = append(bad, fmt.Sprintf("key %q -> %q, want %q", k, got, v))
			}
		}
		keys, wf := tagKeys(val)
		if !wf {
			bad = append(bad, "tag string is not in conventional format")
		}
		if !sort.StringsAreSorted(keys) {
			bad = append(bad, fmt.Sprintf("keys not sorted: %q", keys))
		}
		if len(keys) != len(m) {
			bad = append(bad, fmt.Sprintf("%d keys in the tag, want %d", len(keys), len(m)))
		}
		if len(bad) > 0 {
			sort.Strings(bad)
			problems[i] = strings.Join(bad, "; ") + " in tag " + mon.Trunc(fld.Tag.Value, 200)
		}
	}
	return problems, ""
}

func nFields(s *ast.StructType) int {
	if s == nil {
		return -1
	}
	return len(s.Fields.List)
}

const tagKeyAlphabet = "abcdefghijklmnopqrstuvwxyzABCXYZ0123456789_-.,;!#$%&'()*+/<=>?@[\\]^`{|}~"

func randTagMap(r *rand.Rand) map[string]string {
	n := r.Intn(9)
	if r.Intn(10) == 0 {
		n = 0
	}
	var m map[string]string
	if n > 0 || r.Intn(2) == 0 {
		m = map[string]string{}
	}
	for i := 0; i < n; i++ {
		var k strings.Builder
		switch r.Intn(4) {
		case 0:
			k.WriteString([]string{"json", "xml", "yaml", "db", "validate", "a", "b", "ab", "a.b", "A", "_", "é", "ключ", "キー", "ｊｓｏｎ", "v٣", "naïve", "a\u0301"}[r.Intn(18)])
		default:
			for j, l := 0, 1+r.Intn(6); j < l; j++ {
				k.WriteByte(tagKeyAlphabet[r.Intn(len(tagKeyAlphabet))])
			}
		}
		var v string
		switch r.Intn(6) {
		case 0:
			v = []string{"", "name,omitempty", "-", "a b", "required,min=1"}[r.Intn(5)]
		default:
			v = randString(r)
		}
		m[k.String()] = v
	}
	return m
}

func tagBatchFile(maps []map[string]string, noFormat bool) ([]byte, string) {
	f := jen.NewFile("p")
	f.NoFormat = noFormat
	f.Type().Id("T").StructFunc(func(g *jen.Group) {
		for i, m := range maps {
			g.Id(fmt.Sprintf("F%d", i)).Int().Tag(m)
		}
	})
	return renderFile(f)
}

func c17Batch(r *mon.Run, bi int) {
	rnd := r.Rand("C17/maps", int64(bi))
	maps := make([]map[string]string, 1000)
	for i := range maps {
		maps[i] = randTagMap(rnd)
	}
	// pairs of different maps that print alike when keys and values are listed without quoting
	for i := 20; i+1 < len(maps); i += 40 {
		m := maps[i]
		if len(m) < 2 {
			continue
		}
		keys := make([]string, 0, len(m))
		for k := range m {
			keys = append(keys, k)
		}
		sort.Strings(keys)
		joined := m[keys[0]]
		for _, k := range keys[1:] {
			joined += " " + k + ":" + m[k]
		}
		maps[i+1] = map[string]string{keys[0]: joined}
	}
	if bi == 0 {
		// hand-picked shapes
		maps[0] = nil
		maps[1] = map[string]string{}
		maps[2] = map[string]string{"json": "`"}
		maps[3] = map[string]string{"a": "`", "b": "\"\n\\"}
		maps[4] = map[string]string{"a": "\xff"}
		maps[5] = map[string]string{"a`b": "x", "a": "\"q\""}
		maps[6] = map[string]string{"z": "1", "a": "2", "m": "3", "Z": "4", "0": "5"}
		maps[7] = map[string]string{"k": ""}
	}
	c := mon.Case{Gen: "maps", Seed: r.Seed, Index: int64(bi)}
	for mode := 0; mode < 2; mode++ {
		mname := []string{"formatted", "NoFormat"}[mode]
		src, fail := tagBatchFile(maps, mode == 1)
		if fail != "" {
			culprit := ""
			for _, m := range maps {
				if _, f1 := tagBatchFile([]map[string]string{m}, mode == 1); f1 != "" {
					culprit = fmt.Sprintf("%q: %s", m, mon.Trunc(f1, 300))
					break
				}
			}
			r.Violate("tag-render-failure", c, "%s: struct of 1000 tagged fields does not render; first failing map: %s", mname, culprit)
			continue
		}
		probs, fatal := judgeTagSource(src, maps)
		if fatal != "" {
			r.Violate("tag-batch", c, "%s: %s", mname, fatal)
		}
		for i, p := range probs {
			r.Violate("tag-roundtrip", mon.Case{Gen: "maps", Seed: r.Seed, Index: int64(bi), Extra: mon.J(map[string]interface{}{"i": i, "map": fmt.Sprintf("%q", maps[i])})}, "%s Tag(%q): %s", mname, maps[i], p)
		}
		if r.Verbose {
			fmt.Printf("tag batch %d %s: %d problems fatal=%q\n", bi, mname, len(probs), fatal)
			for i, p := range probs {
				fmt.Printf("  %q: %s\n", maps[i], p)
			}
		}
	}
	for _, m := range maps {
		keys := make([]string, 0, len(m))
		for k := range m {
			keys = append(keys, k)
		}
		sort.Strings(keys)
		var sb strings.Builder
		for _, k := range keys {
			sb.WriteString(k + "\x00" + m[k] + "\x01")
		}
		r.Eval(sb.String(), len(m) > 0)
		r.Count(fmt.Sprintf("maps.keys=%d", len(m)), 1)
		bq, esc := false, false
		for k, v := range m {
			if strings.Contains(k+v, "`") {
				bq = true
			}
			if strings.ContainsAny(v, "\"\\\n") {
				esc = true
			}
		}
		if bq && esc {
			r.Count("maps.backquote_and_escape", 1)
		}
	}
}

func runC17(r *mon.Run) {
	r.SetRule("random maps of 0-8 keys (key alphabet: printable ASCII without space, quote, colon; some conventional names and non-ASCII keys) to values drawn from the C12 string generator (quotes, backquotes, newlines, invalid UTF-8, raw bytes); nil and empty maps; maps that are empty or smaller when Tag is called and filled before (or between) renders; 1,000 fields per rendered struct, formatted and NoFormat; non-trivial = non-empty map; distinct by map content")
	r.NegControl("value-altered-before-lookup", func() {
		probs, fatal := judgeTagSource([]byte("package p\ntype T struct {\n\tF0 int `a:\"\\ufffd\"`\n}\n"), []map[string]string{{"a": "\xff"}})
		if fatal != "" || len(probs) > 0 {
			r.Violate("negctl", mon.Case{Gen: "negctl"}, "%v %v", fatal, probs)
		}
	})
	r.NegControl("keys-unsorted", func() {
		probs, fatal := judgeTagSource([]byte("package p\ntype T struct {\n\tF0 int `b:\"1\" a:\"2\"`\n}\n"), []map[string]string{{"a": "2", "b": "1"}})
		if fatal != "" || len(probs) > 0 {
			r.Violate("negctl", mon.Case{Gen: "negctl"}, "%v %v", fatal, probs)
		}
	})
	r.NegControl("empty-map-renders-tag", func() {
		probs, fatal := judgeTagSource([]byte("package p\ntype T struct {\n\tF0 int ``\n}\n"), []map[string]string{{}})
		if fatal != "" || len(probs) > 0 {
			r.Violate("negctl", mon.Case{Gen: "negctl"}, "%v %v", fatal, probs)
		}
	})
	r.NegControl("sanity-inverse", func() {
		probs, fatal := judgeTagSource([]byte("package p\ntype T struct {\n\tF0 int `a:\"2\" b:\"1\"`\n\tF1 int\n}\n"), []map[string]string{{"a": "2", "b": "1"}, nil})
		if fatal == "" && len(probs) == 0 {
			r.Violate("negctl", mon.Case{Gen: "negctl"}, "accepted (expected)")
		}
	})
	c17Lifetime(r)
	n := r.Pick(12, 3000)
	mon.Parallel(n, func(i int) { c17Batch(r, i) })
	r.Sample(map[string]interface{}{"maps": []string{fmt.Sprintf("%q", randTagMap(r.Rand("C17/maps", 0))), `{"a": "` + "`" + `", "b": "\"\n\\"}`}})
}

// c17Lifetime: the map given to Tag is the caller's and is read when the statement is rendered: a map that was empty
// (or smaller) when Tag was called and is filled before rendering gives the tag of its final content; a map changed
// between two renders gives the tag of its content at each render.
func c17Lifetime(r *mon.Run) {
	c := mon.Case{Gen: "lifetime", Seed: r.Seed}
	rnd := r.Rand("C17/lifetime", 0)
	for round := 0; round < 40; round++ {
		final := randTagMap(rnd)
		for len(final) == 0 {
			final = randTagMap(rnd)
		}
		for _, start := range []string{"empty", "one-key", "nil-then-made"} {
			m := map[string]string{}
			if start == "one-key" {
				for k, v := range final {
					m[k] = v
					break
				}
			}
			f := jen.NewFile("p")
			f.NoFormat = round%2 == 0
			f.Type().Id("T").Struct(jen.Id("F0").Int().Tag(m))
			if start == "nil-then-made" {
				renderFile(f) // rendered once while the map is still empty
			}
			for k, v := range final {
				m[k] = v
			}
			src, fail := renderFile(f)
			if fail != "" {
				r.Violate("tag-render-failure", c, "map filled after Tag (%s): %s", start, fail)
				continue
			}
			probs, fatal := judgeTagSource(src, []map[string]string{final})
			if fatal != "" {
				r.Violate("tag-batch", c, "map filled after Tag (%s): %s\n%s", start, fatal, mon.Trunc(string(src), 400))
			}
			for _, p := range probs {
				r.Violate("tag-roundtrip", c, "a map that was %s when Tag was called and holds %d keys when the statement is rendered: %s\n%s", start, len(final), p, mon.Trunc(string(src), 400))
			}
			r.Count("maps_filled_after_Tag", 1)
		}
	}
	r.Eval("lifetime", true)
}

func replayC17(r *mon.Run, c mon.Case) {
	if c.Gen == "lifetime" {
		c17Lifetime(r)
		return
	}
	c17Batch(r, int(c.Index))
}
