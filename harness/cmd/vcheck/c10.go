package main

import (
	"bytes"
	"crypto/sha256"
	"errors"
	"fmt"
	"io"
	"os"
	"path/filepath"
	"strings"
	"sync"
	"syscall"

	"github.com/dave/jennifer/jen"

	"verifharness/a2j"
	"verifharness/mon"
)

// C10: failure atomicity and error propagation for Render and Save. The fault x entry-point matrix is
// enumerated completely for every tree; trees are sampled (real programs and random compositions).
// Monitors: an instrumented io.Writer (every call, bytes, programmable failure) and filesystem snapshots.

func init() {
	register("C10", "fault_enumeration", runC10, replayC10)
}

var errInjectedWrite = errors.New("verif: injected writer failure")
var errInjectedRender = errors.New("verif: injected render failure")

type monWriter struct {
	calls   int
	data    []byte
	failAt  int // 1-based call that fails (0 = never)
	mode    int // what the failing call reports as written: 0 nothing, 1 half of the bytes, 2 all of them
}

func (w *monWriter) Write(p []byte) (int, error) {
	w.calls++
	if w.calls == w.failAt {
		switch w.mode {
		case 1:
			n := len(p) / 2
			w.data = append(w.data, p[:n]...)
			return n, errInjectedWrite
		case 2:
			w.data = append(w.data, p...)
			return len(p), errInjectedWrite
		}
		return 0, errInjectedWrite
	}
	w.data = append(w.data, p...)
	return len(p), nil
}

// target is one tree reachable through several entry points; build returns a fresh copy each time, with
// an optional probe failing at node failNode (0 = none). nodes is the number of wrappable items.
type c10Tree struct {
	desc  string
	valid bool
	nodes int
	build func(failNode int) (f *jen.File, stmt *jen.Statement, grp *jen.Group)
}

type entryPoint struct {
	name string
	call func(f *jen.File, st *jen.Statement, g *jen.Group, w io.Writer) error
	kind string // file | stmt | group
}

var c10Entries = []entryPoint{
	{"File.Render", func(f *jen.File, st *jen.Statement, g *jen.Group, w io.Writer) error { return f.Render(w) }, "file"},
	{"File.Render(NoFormat)", func(f *jen.File, st *jen.Statement, g *jen.Group, w io.Writer) error {
		f.NoFormat = true
		return f.Render(w)
	}, "file"},
	{"Statement.Render", func(f *jen.File, st *jen.Statement, g *jen.Group, w io.Writer) error { return st.Render(w) }, "stmt"},
	{"Statement.RenderWithFile", func(f *jen.File, st *jen.Statement, g *jen.Group, w io.Writer) error {
		return st.RenderWithFile(w, jen.NewFilePathName("some/pkg", "p"))
	}, "stmt"},
	{"Statement.RenderWithFile(NoFormat File)", func(f *jen.File, st *jen.Statement, g *jen.Group, w io.Writer) error {
		nf := jen.NewFile("p")
		nf.NoFormat = true
		return st.RenderWithFile(w, nf)
	}, "stmt"},
	{"Group.Render", func(f *jen.File, st *jen.Statement, g *jen.Group, w io.Writer) error { return g.Render(w) }, "group"},
	{"Group.RenderWithFile", func(f *jen.File, st *jen.Statement, g *jen.Group, w io.Writer) error {
		return g.RenderWithFile(w, jen.NewFilePathName("some/pkg", "p"))
	}, "group"},
}

func guardErr(fn func() error) (err error, panicked string) {
	p, what := mon.Guard(func() { err = fn() })
	if p {
		return nil, what
	}
	return err, ""
}

func c10TreeFromProgram(ci corpusItem, damaged bool) *c10Tree {
	name, src := ci.source()
	if len(src) == 0 {
		return nil
	}
	probe := a2j.Build(name, src, a2j.Roots(), ci.Seed, a2j.Knobs{})
	if probe.Skip != "" || probe.Panic != "" || len(probe.Items) == 0 {
		return nil
	}
	nodes := 0
	count := a2j.Build(name, src, a2j.Roots(), ci.Seed, a2j.Knobs{Wrap: func(it jen.Code, kind string) jen.Code { nodes++; return it }})
	_ = count
	at := 1 + int(uint64(ci.Seed)%uint64(max(probe.Tr.ListCount, 1)))
	t := &c10Tree{desc: shortPath(name), valid: !damaged, nodes: nodes}
	if damaged {
		t.desc += " (damaged)"
	}
	t.build = func(failNode int) (*jen.File, *jen.Statement, *jen.Group) {
		n := 0
		k := a2j.Knobs{Damage: damaged, DamageAt: at}
		if failNode > 0 && hooksAvailable {
			k.Wrap = func(it jen.Code, kind string) jen.Code {
				n++
				if n == failNode {
					return newProbe(n, it, nil, func(int) error { return errInjectedRender })
				}
				return it
			}
		}
		b := a2j.Build(name, src, a2j.Roots(), ci.Seed, k)
		// the statement / group entry points get the first declarations of the program
		var st *jen.Statement
		var grp *jen.Group
		items := b.Items
		if len(items) > 3 {
			items = items[:3]
		}
		st = jen.Add()
		for i, it := range items {
			if i > 0 {
				st.Line()
			}
			st.Add(it)
		}
		jen.CustomFunc(jen.Options{Multi: true}, func(g *jen.Group) {
			for _, it := range items {
				g.Add(it)
			}
			grp = g
		})
		return b.File, st, grp
	}
	// damage may leave the program valid; decide validity by what gofmt says about the raw rendering
	if damaged {
		f, _, _ := t.build(0)
		f.NoFormat = true
		if raw, fail := renderFile(f); fail == "" {
			if _, err := formatSource(raw); err == nil {
				return nil // still valid: not a formatter-error case
			}
		} else {
			return nil
		}
	}
	return t
}

// c10EmptyTree: statement and group render nothing at all; a failing writer must still be reported.
func c10EmptyTree(kind int) *c10Tree {
	t := &c10Tree{desc: fmt.Sprintf("empty output (kind %d)", kind), valid: true}
	t.build = func(int) (*jen.File, *jen.Statement, *jen.Group) {
		f := jen.NewFile("p")
		var st *jen.Statement
		switch kind % 4 {
		case 0:
			st = jen.Null()
		case 1:
			st = jen.Add()
		case 2:
			st = jen.List(jen.Null(), nil)
		default:
			st = jen.Do(func(*jen.Statement) {})
		}
		var grp *jen.Group
		jen.CustomFunc(jen.Options{}, func(g *jen.Group) { g.Add(jen.Null()); grp = g })
		return f, st, grp
	}
	return t
}

// c10BigTree: outputs of a given size, so that every entry point hands the writer tens of kilobytes to megabytes.
// An implementation that writes large outputs in pieces (chunked writes, a buffered writer flushed at the end, a
// copy loop) has error paths that no small tree reaches: the writer-error enumeration of c10Case then fails every
// one of those writes in turn. The damaged variant ends in a stray closing token, so that the formatter rejects it
// only after the whole text has been produced: nothing of it may have reached the writer.
func c10BigTree(target int, damaged bool) *c10Tree {
	t := &c10Tree{desc: fmt.Sprintf("size ladder: at least %d bytes of output", target), valid: !damaged}
	if damaged {
		t.desc += " (damaged at the very end)"
	}
	n := target/55 + 2
	line := func(i int) *jen.Statement {
		return jen.Qual("fmt", "Println").Call(jen.Lit(strings.Repeat("x", 40)), jen.Lit(i))
	}
	t.build = func(int) (*jen.File, *jen.Statement, *jen.Group) {
		f := jen.NewFile("big")
		for i := 0; i < n; i++ {
			f.Func().Id(fmt.Sprintf("fn%07d", i)).Params().Block(line(i))
		}
		st := jen.Func().Id("host").Params().BlockFunc(func(g *jen.Group) {
			for i := 0; i < n; i++ {
				g.Add(line(i))
			}
		})
		var grp *jen.Group
		jen.CustomFunc(jen.Options{Multi: true}, func(g *jen.Group) {
			for i := 0; i < n; i++ {
				g.Var().Id(fmt.Sprintf("v%07d", i)).Op("=").Lit(strings.Repeat("y", 40))
			}
			grp = g
		})
		if damaged {
			f.Op("}")
			st.Op(")")
			grp.Op("}")
		}
		return f, st, grp
	}
	return t
}

func c10TreeFromRecipe(seed int64) *c10Tree {
	b := c02Build(seed, true)
	if len(b.frags) == 0 {
		return nil
	}
	t := &c10Tree{desc: fmt.Sprintf("random composition (recipe seed %d)", seed), nodes: 0}
	t.build = func(int) (*jen.File, *jen.Statement, *jen.Group) {
		bb := c02Build(seed, true)
		var grp *jen.Group
		st := bb.frags[0]
		jen.CustomFunc(jen.Options{Multi: true}, func(g *jen.Group) { g.Add(bb.frags[0]); grp = g })
		return bb.f, st, grp
	}
	if f, _, _ := t.build(0); f != nil {
		_, fail := renderFile(f)
		t.valid = fail == ""
	}
	return t
}

type fsSnap struct {
	exists bool
	isDir  bool
	sum    [32]byte
	mode   os.FileMode
	mtime  int64
	ino    uint64
	size   int64
}

func snap(path string) fsSnap {
	st, err := os.Lstat(path)
	if err != nil {
		return fsSnap{}
	}
	s := fsSnap{exists: true, isDir: st.IsDir(), mode: st.Mode(), mtime: st.ModTime().UnixNano(), size: st.Size()}
	if sys, ok := st.Sys().(*syscall.Stat_t); ok {
		s.ino = sys.Ino
	}
	if st.Mode().IsRegular() { // never read devices such as /dev/full
		b, _ := os.ReadFile(path)
		s.sum = sha256.Sum256(b)
	}
	return s
}

// fullDev is a private character device node with the numbers of /dev/full (1,7), made inside this run's
// scratch directory: Save is never pointed at a system path.
var (
	fullDev   string
	fullDevMu sync.Mutex
)

func ensureFullDev() {
	fullDevMu.Lock()
	defer fullDevMu.Unlock()
	if fullDev == "" {
		return
	}
	if st, err := os.Lstat(fullDev); err == nil && st.Mode()&os.ModeCharDevice != 0 {
		return
	}
	os.RemoveAll(fullDev)
	if err := syscall.Mknod(fullDev, syscall.S_IFCHR|0o666, 1<<8|7); err != nil {
		fullDev = ""
	}
}

func c10Case(r *mon.Run, t *c10Tree, c mon.Case, dir string) {
	viol := func(class, format string, a ...interface{}) {
		r.Violate(class, c, "%s\ntree: %s", fmt.Sprintf(format, a...), t.desc)
	}
	faults := 0
	// ---- caller-supplied writers ----
	for _, ep := range c10Entries {
		f, st, g := t.build(0)
		// expected bytes from a twin rendered into a plain buffer
		var exp bytes.Buffer
		expErr, p := guardErr(func() error { return ep.call(f, st, g, &exp) })
		if p != "" {
			viol("panic", "%s panicked: %s", ep.name, p)
			continue
		}
		f, st, g = t.build(0)
		w := &monWriter{}
		err, p := guardErr(func() error { return ep.call(f, st, g, w) })
		if p != "" {
			viol("panic", "%s panicked: %s", ep.name, p)
			continue
		}
		if (err == nil) != (expErr == nil) {
			viol("nondeterministic-outcome", "%s: twin builds disagree on success (%v vs %v)", ep.name, err, expErr)
			continue
		}
		if err != nil {
			// cause: invalid composition -> formatter error. Nothing may have been written.
			faults++
			r.Count("fault.formatter_error."+ep.name, 1)
			if w.calls != 0 {
				viol("wrote-before-failure", "%s returned an error (%s) after calling Write %d times (%d bytes)", ep.name, mon.Trunc(err.Error(), 80), w.calls, len(w.data))
			}
			continue
		}
		if !bytes.Equal(w.data, exp.Bytes()) {
			viol("output-differs", "%s: the writer received %d bytes that differ from the rendered output of an identically built twin (%d bytes), first difference at %d", ep.name, len(w.data), exp.Len(), firstDiff(w.data, exp.Bytes()))
		}
		if w.calls == 0 && exp.Len() > 0 {
			viol("output-differs", "%s returned nil without writing", ep.name)
		}
		r.Count("success."+ep.name, 1)
		// cause: writer error on write k (every k of the clean run, full and partial)
		for k := 1; k <= w.calls; k++ {
			for mode := 0; mode < 3; mode++ {
				f, st, g = t.build(0)
				fw := &monWriter{failAt: k, mode: mode}
				err, p := guardErr(func() error { return ep.call(f, st, g, fw) })
				faults++
				r.Count("fault.writer_error."+ep.name, 1)
				switch {
				case p != "":
					viol("panic", "%s panicked when the writer failed: %s", ep.name, p)
				case err == nil:
					viol("writer-error-swallowed", "%s returned nil although Write call %d of %d failed", ep.name, k, w.calls)
				case !errors.Is(err, errInjectedWrite) && !strings.Contains(err.Error(), errInjectedWrite.Error()):
					viol("writer-error-replaced", "%s returned %q, which does not carry the writer's error", ep.name, mon.Trunc(err.Error(), 100))
				}
			}
		}
		// cause: render error injected at node i (probe), nothing may be written and the error must come back
		if hooksAvailable && t.nodes > 0 && t.valid && ep.kind == "file" {
			for _, node := range []int{1, t.nodes, (t.nodes + 1) / 2, 1 + int(uint64(c.Index*7919+3)%uint64(t.nodes))} {
				f, st, g = t.build(node)
				pw := &monWriter{}
				err, p := guardErr(func() error { return ep.call(f, st, g, pw) })
				faults++
				r.Count("fault.render_error_at_node."+ep.name, 1)
				switch {
				case p != "":
					viol("panic", "%s panicked when node %d failed to render: %s", ep.name, node, p)
				case err == nil:
					// the node may sit in a part that renders nothing (a null-valued context): then no failure is due
					r.Count("fault.render_error_at_node.not_reached", 1)
				case !errors.Is(err, errInjectedRender):
					viol("render-error-replaced", "%s returned %q instead of the error of the failing node %d", ep.name, mon.Trunc(err.Error(), 100), node)
				case pw.calls != 0:
					viol("wrote-before-failure", "%s wrote %d bytes although node %d failed to render", ep.name, len(pw.data), node)
				}
			}
		}
	}
	// ---- File.Save ----
	f, _, _ := t.build(0)
	var exp bytes.Buffer
	expErr, _ := guardErr(func() error { return f.Render(&exp) })
	old := []byte(strings.Repeat("// previously generated file, longer than anything new\n", 400))
	type tgt struct {
		name  string
		setup func() string // returns the path to save to
		must  string        // "ok" or "fail"
	}
	n := 0
	fresh := func(name string) string { n++; return filepath.Join(dir, fmt.Sprintf("t%d-%d-%s", c.Index, n, name)) }
	targets := []tgt{
		{"new file", func() string { return fresh("new.go") }, "ok"},
		{"existing longer file", func() string { p := fresh("old.go"); os.WriteFile(p, old, 0o600); return p }, "ok"},
		{"existing empty file", func() string { p := fresh("empty.go"); os.WriteFile(p, nil, 0o644); return p }, "ok"},
		{"existing file that starts with the new output", func() string {
			p := fresh("prefix.go")
			os.WriteFile(p, append(append([]byte(nil), exp.Bytes()...), []byte("\nfunc stale() {}\n")...), 0o644)
			return p
		}, "ok"},
		{"existing file equal to the new output", func() string { p := fresh("same.go"); os.WriteFile(p, exp.Bytes(), 0o600); return p }, "ok"},
		{"target is a directory", func() string { p := fresh("dir"); os.Mkdir(p, 0o755); return p }, "fail"},
		{"parent missing", func() string { return filepath.Join(fresh("nodir"), "x.go") }, "fail"},
		{"path component is a file", func() string { p := fresh("file"); os.WriteFile(p, []byte("x"), 0o644); return filepath.Join(p, "x.go") }, "fail"},
		{"name too long", func() string { return filepath.Join(dir, strings.Repeat("n", 300)+".go") }, "fail"},
		{"full device (ENOSPC on write)", func() string { return fullDev }, "fail"},
	}
	for _, tg := range targets {
		if tg.name == "full device (ENOSPC on write)" && fullDev == "" {
			r.Count("save.full device unavailable", 1)
			continue
		}
		path := tg.setup()
		if path == fullDev {
			// a change under test may do anything to the path it is given (rename a temporary file over it …):
			// the node is private to this run and is re-made whenever it is no longer the device
			ensureFullDev()
			if fullDev == "" {
				continue
			}
		}
		before := snap(path)
		var parentBefore fsSnap
		if tg.name == "target is a directory" {
			parentBefore = snap(path)
		}
		f, _, _ = t.build(0)
		err, p := guardErr(func() error { return f.Save(path) })
		after := snap(path)
		faults++
		r.Count("save."+tg.name, 1)
		switch {
		case p != "":
			viol("panic", "Save to %s panicked: %s", tg.name, p)
		case expErr != nil:
			// rendering fails: error returned, target untouched
			if err == nil {
				viol("save-error-swallowed", "Save (%s) returned nil although rendering fails (%s)", tg.name, mon.Trunc(expErr.Error(), 80))
			}
			if path != fullDev && after != before {
				viol("save-clobbers-target", "Save (%s) changed the target although rendering failed: before %+v after %+v", tg.name, before, after)
			}
		case tg.must == "ok":
			if err != nil {
				viol("save-failed", "Save (%s) failed: %v", tg.name, err)
				break
			}
			got, _ := os.ReadFile(path)
			if !bytes.Equal(got, exp.Bytes()) {
				viol("saved-content-differs", "Save (%s) returned nil but the file holds %d bytes that differ from the rendered output (%d bytes), first difference at %d", tg.name, len(got), exp.Len(), firstDiff(got, exp.Bytes()))
			}
		default:
			if err == nil && path == fullDev {
				viol("save-error-swallowed", "Save to a full device (a private copy of /dev/full) returned nil although the write cannot succeed")
			} else if err == nil {
				viol("save-error-swallowed", "Save (%s) returned nil", tg.name)
			}
			if tg.name == "target is a directory" && after != parentBefore {
				viol("save-clobbers-target", "Save onto a directory changed it")
			}
		}
	}
	// the same File saved again to the same name after the target was changed behind its back (overwritten, removed,
	// replaced by a directory): the second Save must bring the file back, or report that it cannot
	if expErr == nil {
		for _, change := range []string{"overwritten", "removed", "longer", "directory"} {
			path := fresh("again-" + change + ".go")
			f, _, _ = t.build(0)
			if err, p := guardErr(func() error { return f.Save(path) }); err != nil || p != "" {
				viol("save-failed", "first Save to a fresh path failed: %v %s", err, p)
				break
			}
			switch change {
			case "overwritten":
				os.WriteFile(path, []byte("package other\n"), 0o644)
			case "removed":
				os.Remove(path)
			case "longer":
				os.WriteFile(path, append(append([]byte(nil), exp.Bytes()...), []byte("\nfunc leftover() {}\n")...), 0o644)
			case "directory":
				os.Remove(path)
				os.Mkdir(path, 0o755)
			}
			err, p := guardErr(func() error { return f.Save(path) })
			faults++
			r.Count("save.second_save_after_target_"+change, 1)
			got, rerr := os.ReadFile(path)
			switch {
			case p != "":
				viol("panic", "second Save (target %s in between) panicked: %s", change, p)
			case change == "directory":
				if err == nil {
					viol("save-error-swallowed", "the same File saved again after its target was replaced by a directory: Save returned nil")
				}
			case err != nil:
				viol("save-failed", "second Save (target %s in between) failed: %v", change, err)
			case rerr != nil || !bytes.Equal(got, exp.Bytes()):
				viol("saved-content-differs", "the same File saved again after its target was %s: Save returned nil but the file does not hold the rendered output (%d bytes on disk, %d rendered, read error %v)", change, len(got), exp.Len(), rerr)
			}
			os.RemoveAll(path)
		}
	}
	// Save with an injected render error over an existing file
	if hooksAvailable && t.nodes > 0 && t.valid {
		path := fresh("keep.go")
		os.WriteFile(path, old, 0o640)
		before := snap(path)
		f, _, _ = t.build(1 + int(uint64(c.Index)%uint64(t.nodes)))
		err, p := guardErr(func() error { return f.Save(path) })
		faults++
		r.Count("save.render_error_at_node", 1)
		if p != "" {
			viol("panic", "Save panicked when a node failed to render: %s", p)
		} else if err != nil {
			if after := snap(path); after != before {
				viol("save-clobbers-target", "Save changed an existing file although rendering failed: before %+v after %+v", before, after)
			}
			if !errors.Is(err, errInjectedRender) {
				viol("render-error-replaced", "Save returned %q instead of the failing node's error", mon.Trunc(err.Error(), 100))
			}
		}
	}
	r.Eval(t.desc, true)
	r.Count("faults_injected", int64(faults))
	if t.valid {
		r.Count("trees.valid", 1)
	} else {
		r.Count("trees.invalid", 1)
	}
	if c.Index < 2 {
		r.Sample(map[string]interface{}{"tree": t.desc, "valid": t.valid, "wrappable_nodes": t.nodes})
	}
}

func max(a, b int) int {
	if a > b {
		return a
	}
	return b
}

func c10Trees(r *mon.Run) []func() *c10Tree {
	var mk []func() *c10Tree
	items := corpusList(r, "C10", 0, 0, 0, 1)
	if r.Thorough() {
		// the thorough corpus list is huge; take a seeded sample of it
		rnd := r.Rand("C10/sample", 0)
		perm := rnd.Perm(len(items))
		var pick []corpusItem
		for _, i := range perm[:min(len(perm), 3000)] {
			pick = append(pick, items[i])
		}
		items = pick
	} else {
		rnd := r.Rand("C10/sample", 0)
		perm := rnd.Perm(len(items))
		var pick []corpusItem
		for _, i := range perm[:min(len(perm), 110)] {
			pick = append(pick, items[i])
		}
		items = pick
	}
	for i, ci := range items {
		ci := ci
		damaged := i%3 == 2
		mk = append(mk, func() *c10Tree { return c10TreeFromProgram(ci, damaged) })
	}
	for k := 0; k < 4; k++ {
		k := k
		mk = append(mk, func() *c10Tree { return c10EmptyTree(k) })
	}
	for i, n := 0, r.Pick(120, 2500); i < n; i++ {
		seed := mon.DeriveSeed(r.Seed, "C10/recipe", int64(i))
		mk = append(mk, func() *c10Tree { return c10TreeFromRecipe(seed) })
	}
	// the size ladder (appended last, so that the indices of the trees above do not move): sizes on both sides of
	// the usual buffer thresholds (4 KiB bufio, 32 KiB io.Copy, 64 KiB pipe, 1 MiB)
	sizes := []int{3 << 10, 5 << 10, 9 << 10, 17 << 10, 33 << 10, 40 << 10, 66 << 10, 130 << 10, 520 << 10}
	if r.Thorough() {
		sizes = append(sizes, 1100<<10, 2100<<10, 4300<<10)
	}
	for _, sz := range sizes {
		sz := sz
		mk = append(mk, func() *c10Tree { return c10BigTree(sz, false) })
	}
	for _, sz := range []int{40 << 10, 130 << 10} {
		sz := sz
		mk = append(mk, func() *c10Tree { return c10BigTree(sz, true) })
	}
	r.Put("size_ladder_bytes", sizes)
	return mk
}

// c10ConstructFaults: an item whose rendering fails, at the first, a middle and the last position of every list
// construct (the 35 of C13, among them Types, Union, Defs, Custom …): every entry point must return that error and
// write nothing — no construct may lose the error of one of its items.
func c10ConstructFaults(r *mon.Run) {
	if !hooksAvailable {
		r.Count("construct_faults.skipped_without_hooks", 1)
		return
	}
	for ci, k := range listConstructs() {
		for pos := 0; pos < 3; pos++ {
			c := mon.Case{Gen: "construct-fault", Seed: r.Seed, Index: int64(ci*3 + pos)}
			build := func() *jen.Statement {
				items := []jen.Code{jen.Id("x1q"), jen.Id("x2q"), jen.Id("x3q")}
				items[pos] = newProbe(pos, jen.Id("failingQ"), nil, func(int) error { return errInjectedRender })
				return k.mk(items...)
			}
			for _, ep := range []string{"File.Render", "File.Render(NoFormat)", "Statement.Render", "Statement.RenderWithFile", "File.GoString"} {
				w := &monWriter{}
				var err error
				p, what := mon.Guard(func() {
					switch ep {
					case "File.Render", "File.Render(NoFormat)":
						f := jen.NewFile("p")
						f.NoFormat = ep != "File.Render"
						f.Func().Id("host").Params().Block(jen.Id("_").Op("=").Add(build()))
						err = f.Render(w)
					case "Statement.Render":
						err = build().Render(w)
					case "Statement.RenderWithFile":
						err = build().RenderWithFile(w, jen.NewFile("p"))
					default:
						f := jen.NewFile("p")
						f.Add(build())
						defer func() {
							if rec := recover(); rec != nil {
								err = errInjectedRender // GoString panics with the render error: that is its way of reporting
							}
						}()
						_ = f.GoString()
						err = nil
					}
				})
				switch {
				case p:
					r.Violate("panic", c, "%s with a failing item at position %d, %s: panic %s", k.name, pos, ep, mon.Trunc(what, 200))
				case err == nil:
					r.Violate("render-error-swallowed", c, "%s with an item whose rendering fails at position %d of 3: %s returned nil (wrote %d bytes)", k.name, pos, ep, len(w.data))
				case ep != "File.GoString" && !errors.Is(err, errInjectedRender):
					r.Violate("render-error-replaced", c, "%s with a failing item at position %d: %s returned %q instead of the item's error", k.name, pos, ep, mon.Trunc(err.Error(), 120))
				case w.calls != 0:
					r.Violate("wrote-before-failure", c, "%s with a failing item at position %d: %s returned the error after writing %d bytes", k.name, pos, ep, len(w.data))
				}
				r.Count("construct_faults", 1)
			}
			r.Eval(fmt.Sprintf("construct-fault|%s|%d", k.name, pos), true)
		}
	}
}

func runC10(r *mon.Run) {
	r.SetRule("fault matrix, enumerated completely for every tree: cause in {invalid composition -> formatter error; render error injected at node i (probe; first, last, middle, one seeded); writer error on write k = 1..W reporting 0, half or all bytes written; target is a directory; parent missing; path component is a file; name too long; a full device (private node with the numbers of /dev/full: ENOSPC on write); existing longer / empty / no target file} x entry point in {File.Render, File.Save, Statement.Render, Statement.RenderWithFile, Group.Render, Group.RenderWithFile}; plus, for each of 35 list constructs, an item that fails to render at the first, middle and last position through five entry points; trees: real programs (every third one damaged so that the formatter rejects it) and random grammar-biased compositions. non-trivial = every tree; distinct by tree")
	r.Assume("running as root, permission bits cannot make a directory unwritable; that cause is realised by the missing-parent / component-is-a-file / directory / name-too-long / /dev/full targets")
	r.SetExhaustive(false)
	dir := filepath.Join(mon.VerifDir, "bin", fmt.Sprintf("c10-%d", os.Getpid()))
	os.MkdirAll(dir, 0o755)
	defer os.RemoveAll(dir)
	c10NegControls(r, dir)
	fullDev = filepath.Join(dir, "full-device")
	ensureFullDev()
	if fullDev != "" {
		// it must behave like /dev/full, or it proves nothing
		if fh, err := os.OpenFile(fullDev, os.O_WRONLY, 0); err != nil {
			fullDev = ""
		} else {
			if _, werr := fh.Write([]byte("x")); werr == nil {
				fullDev = ""
			}
			fh.Close()
		}
	}
	r.Put("full_device_available", fullDev != "")
	c10ConstructFaults(r)
	mk := c10Trees(r)
	mon.Parallel(len(mk), func(i int) {
		t := mk[i]()
		if t == nil {
			r.Count("trees.skipped", 1)
			return
		}
		c10Case(r, t, mon.Case{Gen: "tree", Seed: r.Seed, Index: int64(i)}, dir)
	})
	r.Put("entry_points", []string{"File.Render", "File.Save", "Statement.Render", "Statement.RenderWithFile", "Group.Render", "Group.RenderWithFile"})
	os.RemoveAll(dir)
}

func replayC10(r *mon.Run, c mon.Case) {
	dir := filepath.Join(mon.VerifDir, "bin", fmt.Sprintf("c10-%d", os.Getpid()))
	os.MkdirAll(dir, 0o755)
	defer os.RemoveAll(dir)
	fullDev = filepath.Join(dir, "full-device")
	ensureFullDev()
	mk := c10Trees(r)
	if int(c.Index) < len(mk) {
		if t := mk[c.Index](); t != nil {
			c10Case(r, t, c, dir)
		}
	}
}

func c10NegControls(r *mon.Run, dir string) {
	// the writer monitor must see a write that precedes a failure, and a swallowed error
	r.NegControl("write-before-format", func() {
		w := &monWriter{}
		err := func(w io.Writer) error { w.Write([]byte("x")); return fmt.Errorf("format error") }(w)
		if err != nil && w.calls != 0 {
			r.Violate("negctl", mon.Case{Gen: "negctl"}, "wrote before failing")
		}
	})
	r.NegControl("writer-error-swallowed", func() {
		w := &monWriter{failAt: 1}
		err := func(w io.Writer) error { w.Write([]byte("x")); return nil }(w)
		if err == nil {
			r.Violate("negctl", mon.Case{Gen: "negctl"}, "swallowed")
		}
	})
	r.NegControl("file-not-truncated", func() {
		p := filepath.Join(dir, "negctl.go")
		os.WriteFile(p, []byte("0123456789"), 0o644)
		fh, _ := os.OpenFile(p, os.O_WRONLY, 0o644)
		fh.Write([]byte("abc"))
		fh.Close()
		got, _ := os.ReadFile(p)
		if !bytes.Equal(got, []byte("abc")) {
			r.Violate("negctl", mon.Case{Gen: "negctl"}, "content differs")
		}
	})
	r.NegControl("target-clobbered", func() {
		p := filepath.Join(dir, "negctl2.go")
		os.WriteFile(p, []byte("old"), 0o644)
		before := snap(p)
		os.Create(p)
		if snap(p) != before {
			r.Violate("negctl", mon.Case{Gen: "negctl"}, "changed")
		}
	})
}
