package main

import (
	"bytes"
	"fmt"
	"go/ast"
	"go/parser"
	"go/printer"
	"go/token"
	"math/rand"
	"sort"
	"strings"
	"sync"

	"github.com/dave/jennifer/jen"

	"verifharness/mon"
	"verifharness/oracle"
)

// C16: Values(Dict{…}) renders every non-null pair exactly once, in key order (O5).

func init() {
	register("C16", "exploration", runC16, replayC16)
}

type dictPair struct {
	keyText string // Go source of the key with QQ as package qualifier placeholder; "" = null key
	keyKind string
	mkKey   func() jen.Code
	valNull bool
	valQual bool
	mkVal   func() jen.Code
	twinOf  int // >0: this pair is a second, distinct pair whose key AND value render like those of pair twinOf-1
}

func dictKeyPool(r *rand.Rand, i int) (kind, text string, mk func() jen.Code) {
	id := func(s string) func() jen.Code { return func() jen.Code { return jen.Id(s) } }
	switch r.Intn(18) {
	case 16, 17: // a key containing a Dict whose value is a qualified identifier (alias order != path order)
		ps := []string{"z.org/aaa", "a.org/zzz", "m.org/mmm", "b.org/yyy"}
		p := ps[r.Intn(len(ps))]
		s := fmt.Sprintf("Kq%d", r.Intn(3))
		return "composite-dict-qual", "P{A: QQ." + s + "}", func() jen.Code {
			return jen.Id("P").Values(jen.Dict{jen.Id("A"): jen.Qual(p, s)})
		}
	case 14, 15: // a key that itself contains a Dict (struct-valued map keys)
		a, b := r.Intn(3), r.Intn(3)
		return "composite-dict", fmt.Sprintf("P{X: %d, Y: %d}", a, b), func() jen.Code {
			return jen.Id("P").Values(jen.Dict{jen.Id("X"): jen.Lit(a), jen.Id("Y"): jen.Lit(b)})
		}
	case 0:
		n := r.Intn(40) - 10
		return "int", fmt.Sprint(n), func() jen.Code { return jen.Lit(n) }
	case 1:
		s := []string{"a", "ab", "a b", "", "z\"q", "ü", "a.b", "A", "100%", "50%% off", "rate %d", "%s", "a\nb", "aZb", "a!"}[r.Intn(15)]
		return "string", fmt.Sprintf("%q", s), func() jen.Code { return jen.Lit(s) }
	case 2:
		s := []string{"a", "ab", "aZ", "a1", "b", "B", "_", "abc", "x", "x0", "x1", "x2", "y0"}[r.Intn(13)]
		return "ident", s, id(s)
	case 3:
		return "selector", "a.b", func() jen.Code { return jen.Id("a").Dot("b") }
	case 4:
		n := r.Intn(3)
		return "index", fmt.Sprintf("a[%d]", n), func() jen.Code { return jen.Id("a").Index(jen.Lit(n)) }
	case 5:
		return "call", "f()", func() jen.Code { return jen.Id("f").Call() }
	case 6:
		n := r.Intn(3)
		return "call", fmt.Sprintf("f(%d)", n), func() jen.Code { return jen.Id("f").Call(jen.Lit(n)) }
	case 7:
		p := []string{"a.b/x", "c.d/x", "e.f/x", "fmt", "g.h/y"}[r.Intn(5)]
		s := fmt.Sprintf("Kq%d", r.Intn(3))
		return "qual", "QQ." + s, func() jen.Code { return jen.Qual(p, s) }
	case 8:
		a, b := r.Intn(3), r.Intn(3)
		return "composite", fmt.Sprintf("T{%d, %d}", a, b), func() jen.Code { return jen.Id("T").Values(jen.Lit(a), jen.Lit(b)) }
	case 9:
		if r.Intn(2) == 0 {
			return "binary", "a % b", func() jen.Code { return jen.Id("a").Op("%").Id("b") }
		}
		return "binary", "a + b", func() jen.Code { return jen.Id("a").Op("+").Id("b") }
	case 10:
		return "paren", "(a)", func() jen.Code { return jen.Parens(jen.Id("a")) }
	case 11:
		return "unique-ident", fmt.Sprintf("k%d", i), id(fmt.Sprintf("k%d", i))
	case 12:
		return "unique-ident", fmt.Sprintf("K_%d", i), id(fmt.Sprintf("K_%d", i))
	default:
		c := rune('a' + r.Intn(26))
		return "rune", fmt.Sprintf("%q", c), func() jen.Code { return jen.LitRune(c) }
	}
}

func nullCode(r *rand.Rand) jen.Code {
	switch r.Intn(7) {
	case 6:
		return nil // an untyped nil key or value renders nothing: the pair is omitted (repaired defect D12)
	case 0:
		return jen.Null()
	case 1:
		return jen.Add()
	case 2:
		return jen.List()
	case 3:
		return (*jen.Statement)(nil)
	case 4:
		return jen.Tag(nil)
	default:
		return jen.Add(jen.Null(), jen.List(jen.Null()))
	}
}

func genDict(r *rand.Rand) []dictPair {
	n := r.Intn(7)
	switch r.Intn(10) {
	case 0:
		n = 0
	case 1:
		n = 1
	case 2:
		n = 8 + r.Intn(33)
	}
	ps := make([]dictPair, n)
	for i := range ps {
		i := i
		kind, text, mk := dictKeyPool(r, i)
		ps[i] = dictPair{keyText: text, keyKind: kind, mkKey: mk}
		if r.Intn(12) == 0 {
			seed := r.Int63()
			ps[i].keyText, ps[i].keyKind = "", "null"
			ps[i].mkKey = func() jen.Code { return nullCode(rand.New(rand.NewSource(seed))) }
		}
		if r.Intn(12) == 0 {
			seed := r.Int63()
			ps[i].valNull = true
			ps[i].mkVal = func() jen.Code { return nullCode(rand.New(rand.NewSource(seed))) }
		} else if r.Intn(5) == 0 {
			// the value is a qualified identifier (its package may compete with a key's package for an alias)
			p := []string{"a.b/x", "c.d/x", "e.f/x", "g.h/y", "i.j/y"}[r.Intn(5)]
			ps[i].valQual = true
			ps[i].mkVal = func() jen.Code { return jen.Qual(p, fmt.Sprintf("val_%d", i)) }
		} else {
			ps[i].mkVal = func() jen.Code { return jen.Id(fmt.Sprintf("val_%d", i)) }
		}
	}
	// force keys that render identically (distinct Code values, same text)
	if n >= 2 && r.Intn(4) == 0 {
		j, k := r.Intn(n), r.Intn(n)
		if j != k && ps[j].keyText != "" {
			ps[k].keyText, ps[k].keyKind, ps[k].mkKey = ps[j].keyText, ps[j].keyKind+"-dup", ps[j].mkKey
		}
	}
	// keys derived from one shared prefix by Clone (the way generators build families of selectors): every key is
	// prefix.Clone().Index(n); the prefix has spare capacity, so clones that shared storage would overwrite each other
	if n >= 2 && r.Intn(5) == 0 {
		prefix := jen.Id("cfg").Dot("Opts").Dot("Field")
		if r.Intn(2) == 0 {
			prefix = jen.Id("tbl").Dot("Rows").Dot("At").Dot("Cell")
		}
		text := map[bool]string{true: "cfg.Opts.Field", false: "tbl.Rows.At.Cell"}[len(*prefix) == 5]
		for cnt, k := 0, r.Intn(n); cnt < 2+r.Intn(3) && cnt < n; cnt, k = cnt+1, (k+1)%n {
			if ps[k].keyText == "" {
				continue
			}
			idx := 100 + k
			ps[k].keyText, ps[k].keyKind = fmt.Sprintf("%s[%d]", text, idx), "clone-derived"
			ps[k].mkKey = func() jen.Code { return prefix.Clone().Index(jen.Lit(idx)) }
		}
	}
	// pairs that render identically altogether (distinct Code values, same key text, same value text): a map
	// literal with non-constant keys may hold them, and each is a pair of its own
	if n >= 2 && r.Intn(6) == 0 {
		j, k := r.Intn(n), r.Intn(n)
		if j != k && ps[j].keyText != "" && !ps[j].valNull && ps[j].twinOf == 0 && ps[k].twinOf == 0 {
			pj := ps[j]
			pj.keyKind, pj.twinOf = ps[j].keyKind+"-twin", j+1
			ps[k] = pj
		}
	}
	return ps
}

func dictDesc(ps []dictPair) string {
	var sb strings.Builder
	sb.WriteString("Dict{")
	for i, p := range ps {
		k := p.keyText
		if k == "" {
			k = "<null>"
		}
		v := fmt.Sprintf("val_%d", i)
		if p.twinOf > 0 {
			v = fmt.Sprintf("val_%d", p.twinOf-1)
		}
		if p.valNull {
			v = "<null>"
		}
		fmt.Fprintf(&sb, "%s: %s, ", k, v)
	}
	sb.WriteString("}")
	return sb.String()
}

type visitRec struct {
	mu     sync.Mutex
	orders map[string]bool
	cur    []string
}

func buildDictFile(ps []dictPair, noFormat bool, viaFunc bool, rec *visitRec) *jen.File {
	return buildDictFilePre(ps, noFormat, viaFunc, rec, false)
}

// c16QualPaths: every package path the key and value generators may refer to.
var c16QualPaths = []string{"z.org/aaa", "m.org/mmm", "i.j/y", "g.h/y", "fmt", "e.f/x", "c.d/x", "b.org/yyy", "a.org/zzz", "a.b/x"}

// buildDictFilePre: with pre, the File refers to every package before the Dict, in an order that gives the packages
// names whose order differs from the order of their paths: the pairs are ordered by the key text as written (with
// those names), and rendering the keys does not add anything to the import table.
func buildDictFilePre(ps []dictPair, noFormat bool, viaFunc bool, rec *visitRec, pre bool) *jen.File {
	f := jen.NewFile("p")
	f.NoFormat = noFormat
	if pre {
		for i, p := range c16QualPaths {
			f.Var().Id(fmt.Sprintf("pre%d", i)).Op("=").Qual(p, "Pre")
		}
	}
	fill := func(d jen.Dict) {
		for i, p := range ps {
			k := p.mkKey()
			if rec != nil && hooksAvailable {
				i := i
				k = newProbe(i, k, func(id int) {
					rec.mu.Lock()
					rec.cur = append(rec.cur, fmt.Sprint(i))
					rec.mu.Unlock()
				}, nil)
			}
			d[k] = p.mkVal()
		}
	}
	var d jen.Dict
	if viaFunc {
		d = jen.DictFunc(fill)
	} else {
		d = jen.Dict{}
		fill(d)
	}
	f.Var().Id("X").Op("=").Id("M").Values(d)
	return f
}

type dictObs struct {
	keys   []string // canonical text of each rendered key, in output order
	vals   []string
	raw    []string // key source text as written
	lines  []int
	ends   []int
	lbrace int
	rbrace int
}

func observeDict(src []byte) (*dictObs, string) {
	fset := token.NewFileSet()
	af, err := parser.ParseFile(fset, "d.go", src, parser.SkipObjectResolution)
	if err != nil {
		return nil, "output does not parse: " + err.Error()
	}
	var cl *ast.CompositeLit
	ast.Inspect(af, func(n ast.Node) bool {
		if c, ok := n.(*ast.CompositeLit); ok && cl == nil {
			if id, ok := c.Type.(*ast.Ident); ok && id.Name == "M" {
				cl = c
			}
		}
		return cl == nil
	})
	if cl == nil {
		return nil, "composite literal M{…} not found in the output"
	}
	o := &dictObs{lbrace: fset.Position(cl.Lbrace).Line, rbrace: fset.Position(cl.Rbrace).Line}
	for _, e := range cl.Elts {
		kv, ok := e.(*ast.KeyValueExpr)
		if !ok {
			return nil, "element is not key: value"
		}
		// replace package qualifiers of Kq symbols by the placeholder
		ast.Inspect(kv.Key, func(n ast.Node) bool {
			if se, ok := n.(*ast.SelectorExpr); ok && strings.HasPrefix(se.Sel.Name, "Kq") {
				if id, ok := se.X.(*ast.Ident); ok {
					id.Name = "QQ"
				}
			}
			return true
		})
		o.keys = append(o.keys, oracle.Canon(kv.Key))
		var vb bytes.Buffer
		if se, ok := kv.Value.(*ast.SelectorExpr); ok && strings.HasPrefix(se.Sel.Name, "val_") {
			vb.WriteString(se.Sel.Name) // a qualified marker: the marker is what identifies the pair
		} else {
			printer.Fprint(&vb, fset, kv.Value)
		}
		o.vals = append(o.vals, vb.String())
		o.raw = append(o.raw, string(src[fset.Position(kv.Key.Pos()).Offset:fset.Position(kv.Colon).Offset]))
		o.lines = append(o.lines, fset.Position(kv.Pos()).Line)
		o.ends = append(o.ends, fset.Position(kv.End()).Line)
	}
	return o, ""
}

func canonText(text string) string {
	e, err := parser.ParseExpr(text)
	if err != nil {
		return "unparsable:" + text
	}
	return oracle.Canon(e)
}

// judgeDict compares what was parsed from the formatted and raw renderings with the pairs given.
func judgeDict(ps []dictPair, formatted, raw []byte) []string {
	var probs []string
	of, e1 := observeDict(formatted)
	if e1 != "" {
		return []string{"formatted: " + e1}
	}
	or, e2 := observeDict(raw)
	if e2 != "" {
		return []string{"raw: " + e2}
	}
	want := map[string]string{} // value marker -> canonical key
	wantN := map[string]int{}   // value marker -> number of pairs carrying it (2 for a pair and its twin)
	for i, p := range ps {
		if p.keyText != "" && !p.valNull {
			m := fmt.Sprintf("val_%d", i)
			if p.twinOf > 0 {
				m = fmt.Sprintf("val_%d", p.twinOf-1)
			}
			want[m] = canonText(p.keyText)
			wantN[m]++
		}
	}
	for name, o := range map[string]*dictObs{"formatted": of, "raw": or} {
		seen := map[string]int{}
		for i, v := range o.vals {
			seen[v]++
			wk, ok := want[v]
			switch {
			case !ok:
				probs = append(probs, fmt.Sprintf("%s: rendered pair with value %s which is not an expected pair (null side, or attached to the wrong pair)", name, v))
			case wk != o.keys[i]:
				probs = append(probs, fmt.Sprintf("%s: value %s is attached to key %s, want %s", name, v, o.keys[i], wk))
			}
		}
		for v := range want {
			if seen[v] == 0 {
				probs = append(probs, fmt.Sprintf("%s: pair with value %s is missing", name, v))
			} else if seen[v] != wantN[v] {
				probs = append(probs, fmt.Sprintf("%s: pair with value %s rendered %d times, want %d", name, v, seen[v], wantN[v]))
			}
		}
	}
	// order: non-decreasing by the rendered key text (as written, or as formatted — both readings admitted)
	trim := func(l []string) []string {
		out := make([]string, len(l))
		for i, s := range l {
			out[i] = strings.TrimSpace(s)
		}
		return out
	}
	if !sort.StringsAreSorted(trim(or.raw)) && !sort.StringsAreSorted(trim(of.raw)) {
		probs = append(probs, fmt.Sprintf("pairs are not ordered by rendered key text: raw keys %q, formatted keys %q", trim(or.raw), trim(of.raw)))
	}
	// layout on the formatted output
	n := len(of.keys)
	switch {
	case n == 0:
		if of.lbrace != of.rbrace {
			probs = append(probs, fmt.Sprintf("no pairs but the literal spans lines %d-%d", of.lbrace, of.rbrace))
		}
	case n == 1:
		// inline: the pair starts on the line of the opening brace and the closing brace follows it directly
		// (the pair itself may span lines if its key or value does)
		if of.lines[0] != of.lbrace || of.ends[0] != of.rbrace {
			probs = append(probs, fmt.Sprintf("1 pair but it is not inline: braces on lines %d and %d, pair on lines %d-%d", of.lbrace, of.rbrace, of.lines[0], of.ends[0]))
		}
	default:
		prev := of.lbrace
		for i, l := range of.lines {
			if l <= prev {
				probs = append(probs, fmt.Sprintf("pair %d is not on a line of its own", i))
				break
			}
			prev = of.ends[i]
		}
		if of.rbrace <= prev {
			probs = append(probs, "closing brace shares a line with the last pair")
		}
	}
	sort.Strings(probs)
	return probs
}

func c16Case(r *mon.Run, idx int64) {
	rnd := r.Rand("C16/dict", idx)
	ps := genDict(rnd)
	c := mon.Case{Gen: "dict", Seed: r.Seed, Index: idx}
	desc := dictDesc(ps)
	rec := &visitRec{orders: map[string]bool{}}
	useRec := idx%8 == 0
	var outs [2][]byte
	ok := true
	for mode := 0; mode < 3 && ok; mode++ {
		var rr *visitRec
		if useRec && mode == 0 {
			rr = rec
		}
		f := buildDictFilePre(ps, mode == 1, mode == 2, rr, idx%3 == 1)
		src, fail := renderFile(f)
		if fail != "" {
			r.Violate("dict-render-failure", c, "%s does not render (%s): %s", desc, []string{"formatted", "NoFormat", "DictFunc"}[mode], fail)
			ok = false
			break
		}
		if rr != nil {
			// the first pass of Dict.render asks every key whether it is null, in map order
			rr.mu.Lock()
			if len(rr.cur) >= len(ps) && len(ps) > 0 {
				rr.orders[strings.Join(rr.cur[:len(ps)], ",")] = true
			}
			rr.cur = nil
			rr.mu.Unlock()
			// render the same File again: another iteration of the same map
			for k := 0; k < 3; k++ {
				renderFile(f)
				rr.mu.Lock()
				if len(rr.cur) >= len(ps) && len(ps) > 0 {
					rr.orders[strings.Join(rr.cur[:len(ps)], ",")] = true
				}
				rr.cur = nil
				rr.mu.Unlock()
			}
		}
		if mode < 2 {
			outs[mode] = src
		} else {
			// DictFunc is judged by the same oracle (byte equality of forms is C14's and C07's business)
			for _, p := range judgeDict(ps, src, outs[1]) {
				r.Violate("dictfunc-pairs", c, "DictFunc: %s\n%s\noutput:\n%s", p, desc, src)
			}
		}
	}
	nontriv := 0
	for _, p := range ps {
		if p.keyText != "" && !p.valNull {
			nontriv++
		}
	}
	if ok {
		probs := judgeDict(ps, outs[0], outs[1])
		for _, p := range probs {
			class := "dict-pairs"
			if strings.Contains(p, "not ordered") {
				class = "dict-order"
			} else if strings.Contains(p, "line") {
				class = "dict-layout"
			}
			r.Violate(class, c, "%s\n%s\noutput:\n%s", p, desc, outs[0])
		}
		if r.Verbose {
			fmt.Printf("%s\n--- formatted ---\n%s\n--- problems ---\n%v\n", desc, outs[0], probs)
		}
	}
	// two-phase: one key statement is extended in place after a first render with a File; the second render
	// with the same File must equal a fresh build of the changed Dict
	usesPackages := false
	for _, p := range ps {
		if p.valQual || strings.Contains(p.keyKind, "qual") {
			// with package references the second render legitimately keeps the aliases chosen by the first one
			// (C08), which a fresh build would hand out in another order
			usesPackages = true
		}
	}
	if ok && idx%5 == 0 && len(ps) >= 2 && !usesPackages {
		keys := make([]*jen.Statement, len(ps))
		// … and one more pair whose value is an empty placeholder (the pair renders nothing) that is given content
		// after the first render: the pair must then appear
		var placeholder *jen.Statement
		mk := func(extend bool) (jen.Dict, *jen.Statement) {
			d := jen.Dict{}
			placeholder = jen.Null()
			if extend {
				placeholder.Id("phvq")
			}
			d[jen.Id("phkq")] = placeholder
			var first *jen.Statement
			for i, p := range ps {
				k := jen.Add(p.mkKey())
				if first == nil && p.keyText != "" && !p.valNull {
					first = k
					if extend {
						k.Dot("lateq")
					}
				}
				keys[i] = k
				d[k] = p.mkVal()
			}
			return d, first
		}
		d1, k1 := mk(false)
		if k1 != nil {
			f1 := jen.NewFile("p")
			f1.Var().Id("X").Op("=").Id("M").Values(d1)
			renderFile(f1)
			k1.Dot("lateq")
			placeholder.Id("phvq")
			second, fail1 := renderFile(f1)
			d2, _ := mk(true)
			f2 := jen.NewFile("p")
			f2.Var().Id("X").Op("=").Id("M").Values(d2)
			want, fail2 := renderFile(f2)
			if fail1 == "" && fail2 == "" && !bytes.Equal(second, want) {
				r.Violate("dict-stale-key", c, "a key statement was extended (.lateq) and an empty value placeholder was given content (phkq: phvq) after a first render; the second render with the same File differs from a fresh build\n%s\n--- second render ---\n%s\n--- fresh build ---\n%s", desc, second, want)
			}
			r.Count("two_phase_dicts", 1)
		}
	}
	// DictFunc whose callback puts empty statements in as values (and one as key): placeholders that are filled
	// after DictFunc returned; what is null is decided when the Dict is rendered
	if ok && idx%7 == 3 && len(ps) >= 1 {
		var holders []*jen.Statement
		var keyHolder *jen.Statement
		var d jen.Dict
		pp, what := mon.Guard(func() {
			d = jen.DictFunc(func(dd jen.Dict) {
				for i, p := range ps {
					var h *jen.Statement
					switch i % 3 {
					case 0:
						h = jen.Add()
					case 1:
						h = &jen.Statement{}
					default:
						h = jen.Null()
					}
					holders = append(holders, h)
					if i == 0 && p.keyText != "" {
						keyHolder = jen.Add()
						dd[keyHolder] = h
					} else {
						dd[p.mkKey()] = h
					}
				}
			})
			f := jen.NewFile("p")
			f.Var().Id("X").Op("=").Id("M").Values(d)
			if idx%2 == 0 {
				renderFile(f) // rendered once while everything is still empty
			}
			for i, p := range ps {
				holders[i].Add(p.mkVal())
			}
			if keyHolder != nil {
				keyHolder.Add(ps[0].mkKey())
			}
			src, fail := renderFile(f)
			g := jen.NewFile("p")
			g.NoFormat = true
			g.Var().Id("X").Op("=").Id("M").Values(d)
			raw, fail2 := renderFile(g)
			if fail != "" || fail2 != "" {
				r.Violate("dict-render-failure", c, "DictFunc with placeholders filled afterwards does not render: %s %s\n%s", fail, fail2, desc)
				return
			}
			for _, p := range judgeDict(ps, src, raw) {
				r.Violate("dict-pairs", c, "DictFunc whose callback inserted empty statements as placeholders, filled after it returned: %s\n%s\noutput:\n%s", p, desc, src)
			}
		})
		if pp {
			r.Violate("dict-render-failure", c, "DictFunc with placeholders: panic %s\n%s", mon.Trunc(what, 300), desc)
		}
		r.Count("dictfunc_placeholders_filled_later", 1)
	}
	// DictFunc whose callback adds nothing but keeps the Dict (and the Dict DictFunc returns): pairs added afterwards
	// through either reference are pairs of the literal
	if ok && idx%7 == 0 && len(ps) >= 1 {
		for _, via := range []string{"captured", "returned"} {
			var captured jen.Dict
			var ret jen.Dict
			pp, what := mon.Guard(func() {
				ret = jen.DictFunc(func(d jen.Dict) { captured = d })
				target := captured
				if via == "returned" {
					target = ret
				}
				f := jen.NewFile("p")
				f.Var().Id("X").Op("=").Id("M").Values(ret)
				renderFile(f) // rendered once while still empty
				for _, p := range ps {
					target[p.mkKey()] = p.mkVal()
				}
				src, fail := renderFile(f)
				g := jen.NewFile("p")
				g.NoFormat = true
				g.Var().Id("X").Op("=").Id("M").Values(ret)
				raw, fail2 := renderFile(g)
				if fail != "" || fail2 != "" {
					r.Violate("dict-render-failure", c, "DictFunc(empty callback) filled afterwards (%s Dict) does not render: %s %s\n%s", via, fail, fail2, desc)
					return
				}
				for _, p := range judgeDict(ps, src, raw) {
					r.Violate("dict-pairs", c, "DictFunc whose callback adds nothing, pairs added afterwards through the %s Dict: %s\n%s\noutput:\n%s", via, p, desc, src)
				}
			})
			if pp {
				r.Violate("dict-render-failure", c, "DictFunc(empty callback), pairs added afterwards through the %s Dict: panic %s\n%s", via, mon.Trunc(what, 300), desc)
			}
			r.Count("dictfunc_filled_after_construction", 1)
		}
	}
	r.Eval(desc, nontriv >= 2)
	r.Count(fmt.Sprintf("dicts.pairs=%02d", min(len(ps), 10)), 1)
	for _, p := range ps {
		r.Count("keys."+p.keyKind, 1)
		if p.valNull {
			r.Count("values.null", 1)
		}
	}
	if useRec && hooksAvailable && len(ps) >= 2 {
		r.Count("probe.dicts_observed", 1)
		r.Count("probe.distinct_visit_orders_total", int64(len(rec.orders)))
		r.Max("probe.max_distinct_orders_for_one_dict", int64(len(rec.orders)))
	}
	if idx < 3 {
		r.Sample(map[string]interface{}{"dict": desc, "output": string(outs[0])})
	}
}

// c16IntCase: Dicts of small integer keys and values (no unique markers): the rendered pairs, read as
// (key, value) numbers, must be exactly the multiset that was put in, in key-text order.
func c16IntCase(r *mon.Run, idx int64) {
	rnd := r.Rand("C16/int", idx)
	c := mon.Case{Gen: "int-dict", Seed: r.Seed, Index: idx}
	n := 2 + rnd.Intn(6)
	type kv struct{ k, v int }
	seen := map[int]bool{}
	var pairs []kv
	digits := []int{1, 11, 111, 2, 12, 21, 112, 121, 211, 0, 10, 100}
	for len(pairs) < n {
		k := digits[rnd.Intn(len(digits))]
		if seen[k] {
			continue
		}
		seen[k] = true
		pairs = append(pairs, kv{k, digits[rnd.Intn(len(digits))]})
	}
	d := jen.Dict{}
	for _, p := range pairs {
		d[jen.Lit(p.k)] = jen.Lit(p.v)
	}
	f := jen.NewFile("p")
	f.Var().Id("X").Op("=").Id("M").Values(d)
	src, fail := renderFile(f)
	desc := fmt.Sprintf("Dict%v", pairs)
	if fail != "" {
		r.Violate("dict-render-failure", c, "%s: %s", desc, fail)
		return
	}
	o, e := observeDict(src)
	if e != "" {
		r.Violate("dict-pairs", c, "%s: %s", desc, e)
		return
	}
	got := map[string]int{}
	for i := range o.keys {
		got[strings.TrimSpace(o.raw[i])+":"+o.vals[i]]++
	}
	for _, p := range pairs {
		key := fmt.Sprintf("%d:%d", p.k, p.v)
		if got[key] != 1 {
			r.Violate("dict-pairs", c, "%s: pair %s rendered %d times\noutput:\n%s", desc, key, got[key], src)
		}
		delete(got, key)
	}
	for k := range got {
		r.Violate("dict-pairs", c, "%s: unexpected pair %s\noutput:\n%s", desc, k, src)
	}
	r.Eval(desc, true)
	r.Count("int_dicts", 1)
}

func runC16(r *mon.Run) {
	r.SetRule("random Dicts of 0-40 pairs; keys from literals, identifiers (incl. prefix-related a/ab/a.b/a[0]/aZ), calls, qualified identifiers, composite and binary expressions, keys derived by Clone from one shared prefix, forced render-identical duplicate keys, and pairs whose key and value both render identically, null keys/values (Null(), Add(), List(), typed nil, Tag(nil)); every value is a unique marker; rendered formatted, NoFormat and via DictFunc, a third of them in Files that referred to every package before (names already fixed, in an order unlike that of the paths); non-trivial = >=2 pairs with both sides non-null; distinct by Dict text")
	r.Assume("'ordered by the rendered text of their keys' admits both the text as written and the text after gofmt; nil interface keys/values are API misuse and not generated")
	c16NegControls(r)
	n := r.Pick(12000, 1500000)
	mon.Parallel(n, func(i int) { c16Case(r, int64(i)) })
	mon.Parallel(r.Pick(3000, 100000), func(i int) { c16IntCase(r, int64(i)) })
}

func replayC16(r *mon.Run, c mon.Case) {
	if c.Gen == "int-dict" {
		c16IntCase(r, c.Index)
		return
	}
	c16Case(r, c.Index)
}

func c16NegControls(r *mon.Run) {
	ps := []dictPair{
		{keyText: "f()", mkVal: nil}, {keyText: "f()", mkVal: nil}, {keyText: "a", mkVal: nil}, {keyText: "b", valNull: true},
	}
	ctl := func(name, body string) {
		r.NegControl(name, func() {
			src := []byte("package p\n\nvar X = M{" + body + "}\n")
			for _, p := range judgeDict(ps, src, src) {
				r.Violate("negctl", mon.Case{Gen: "negctl"}, "%s", p)
			}
		})
	}
	ctl("duplicate-keys-collapsed", "\n\ta: val_2,\n\tf(): val_1,\n\tf(): val_1,\n")
	ctl("pair-dropped", "\n\ta: val_2,\n\tf(): val_0,\n")
	ctl("unsorted", "\n\tf(): val_0,\n\ta: val_2,\n\tf(): val_1,\n")
	ctl("value-swapped", "\n\ta: val_0,\n\tf(): val_2,\n\tf(): val_1,\n")
	ctl("null-pair-rendered", "\n\ta: val_2,\n\tb: val_3,\n\tf(): val_0,\n\tf(): val_1,\n")
	ctl("not-one-per-line", "a: val_2, f(): val_0, f(): val_1")
	r.NegControl("sanity-inverse", func() {
		src := []byte("package p\n\nvar X = M{\n\ta: val_2,\n\tf(): val_0,\n\tf(): val_1,\n}\n")
		if len(judgeDict(ps, src, src)) == 0 {
			r.Violate("negctl", mon.Case{Gen: "negctl"}, "accepted (expected)")
		}
	})
}
