package main

import (
	"bytes"
	"fmt"
	"go/ast"
	"go/parser"
	"go/token"
	"os"
	"os/exec"
	"path/filepath"
	"sort"
	"strconv"
	"strings"

	"github.com/dave/jennifer/jen"

	"verifharness/mon"
	"verifharness/oracle"
)

// C18: standard-library packages are referred to by their real names. The oracle is the package clause
// parsed from GOROOT/src/<path> (never jennifer's table). Exhaustive over the installed toolchain.

func init() {
	register("C18", "exploration", runC18, replayC18)
}

type stdRefCase struct {
	Paths  []string          `json:"paths"`
	Prefix string            `json:"prefix,omitempty"`
	Hints   map[string]string `json:"-"`
	Aliases map[string]string `json:"aliases,omitempty"` // ImportAlias hints
	Label   string            `json:"label"`
}

// judgeStdOutput: for every path, the import spec and the qualifier actually written must agree with the
// names declared in GOROOT/src/<path>.
func judgeStdOutput(src []byte, paths []string, declared func(path string) []string) []string {
	var probs []string
	af, err := parser.ParseFile(token.NewFileSet(), "o.go", src, parser.SkipObjectResolution)
	if err != nil {
		return []string{"output does not parse: " + err.Error()}
	}
	specs := map[string]*ast.ImportSpec{}
	for _, is := range af.Imports {
		p, _ := strconv.Unquote(is.Path.Value)
		if specs[p] != nil {
			probs = append(probs, fmt.Sprintf("path %q imported twice", p))
		}
		specs[p] = is
	}
	// qualifier used for reference i is found through its unique selector name
	quals := map[int]string{}
	ast.Inspect(af, func(n ast.Node) bool {
		if se, ok := n.(*ast.SelectorExpr); ok && strings.HasPrefix(se.Sel.Name, "StdSym") {
			i, _ := strconv.Atoi(strings.TrimPrefix(se.Sel.Name, "StdSym"))
			if id, ok := se.X.(*ast.Ident); ok {
				quals[i] = id.Name
			}
		}
		return true
	})
	bound := map[string]string{}
	for i, p := range paths {
		q, ok := quals[i]
		if !ok {
			// a dot import provides the names of the package directly: the reference is a bare identifier
			if is := specs[p]; is != nil && is.Name != nil && is.Name.Name == "." && bytes.Contains(src, []byte(fmt.Sprintf("= StdSym%d\n", i))) {
				continue
			}
			probs = append(probs, fmt.Sprintf("reference to %q not found as a qualified identifier (and not bare under a dot import)", p))
			continue
		}
		is := specs[p]
		if is == nil {
			probs = append(probs, fmt.Sprintf("%q is referenced as %s but not imported", p, q))
			continue
		}
		if is.Name != nil {
			if is.Name.Name != q {
				probs = append(probs, fmt.Sprintf("%q imported under alias %s but qualified by %s", p, is.Name.Name, q))
			}
		} else {
			names := declared(p)
			if names == nil {
				probs = append(probs, fmt.Sprintf("%q is not a standard package yet it is imported without an alias (qualifier %s)", p, q))
				continue
			}
			found := false
			for _, n := range names {
				if n == q {
					found = true
				}
			}
			if !found {
				probs = append(probs, fmt.Sprintf("%q imported without alias and qualified by %s, but the package declares %v", p, q, names))
			}
		}
		if other, dup := bound[q]; dup {
			probs = append(probs, fmt.Sprintf("qualifier %s used for both %q and %q", q, other, p))
		}
		bound[q] = p
	}
	return probs
}

// c18Variants: the ways in which the one-reference files are produced. 0: fresh File rendered once; 1: the second
// render of the same File; 2: the File also carries a cgo preamble (directives only, nothing refers to C); 3: the
// references are first rendered as fragments with the File (RenderWithFile), then the File is rendered.
var c18Variants = []string{"fresh", "second-render", "with-cgo-preamble", "after-RenderWithFile", "file-named-like-the-package", "alias-after-name-hint", "alias-given-twice", "dot-import-rendered-twice"}

func (sc stdRefCase) render() ([]byte, string) { return sc.renderVariant(0) }

func (sc stdRefCase) renderVariant(variant int) ([]byte, string) {
	f := jen.NewFile("p")
	if variant == 4 && len(sc.Paths) > 0 {
		// the generated file belongs to a package that is called like the (first) package it refers to: package log
		// wrapping "log" — NewFile gives the File no path, so nothing is local
		if names := stdDeclared(sc.Paths[0]); len(names) > 0 {
			f = jen.NewFile(names[0])
		}
	}
	f.PackagePrefix = sc.Prefix
	if sc.Hints != nil {
		f.ImportNames(sc.Hints)
	}
	for _, p := range sc.Paths { // in path order, not map order
		if a, ok := sc.Aliases[p]; ok {
			switch variant {
			case 5:
				// a table of names first, one entry overridden by an alias afterwards
				if names := stdDeclared(p); len(names) > 0 {
					if len(sc.Paths)%2 == 0 {
						f.ImportName(p, names[0])
					} else {
						f.ImportNames(map[string]string{p: names[0], "fmt": "fmt"})
					}
				}
			case 6:
				f.ImportAlias(p, a)
			}
			f.ImportAlias(p, a)
		}
	}
	if variant == 7 && len(sc.Paths) > 0 {
		f.ImportAlias(sc.Paths[0], ".") // the first package is dot-imported (an explicit alias: the import provides the names unqualified)
	}
	for i, p := range sc.Paths {
		st := f.Var().Id(fmt.Sprintf("V%d", i)).Op("=").Qual(p, fmt.Sprintf("StdSym%d", i))
		if variant == 3 {
			if err := st.RenderWithFile(&bytes.Buffer{}, f); err != nil {
				return nil, "RenderWithFile: " + err.Error()
			}
		}
	}
	switch variant {
	case 1, 7:
		if _, fail := renderFile(f); fail != "" {
			return nil, fail
		}
	case 2:
		f.CgoPreamble("#cgo LDFLAGS: -lm")
	}
	return renderFile(f)
}

func stdDeclared(path string) []string {
	for _, sp := range oracle.StdPackages() {
		if sp.Path == path {
			return sp.Names
		}
	}
	return nil
}

func c18Case(r *mon.Run, sc stdRefCase, c mon.Case) {
	for v := 1; v < len(c18Variants); v++ {
		if (v == 5 || v == 6) && len(sc.Aliases) == 0 {
			continue // these two variants only differ from the plain one when an alias hint is given
		}
		if v == 7 && (len(sc.Aliases) > 0 || len(sc.Paths) > 3) {
			continue
		}
		src, fail := sc.renderVariant(v)
		if fail != "" {
			r.Violate("std-render-failure", c, "%v (%s): %s", sc.Paths, c18Variants[v], fail)
			continue
		}
		for _, p := range judgeStdOutput(src, sc.Paths, stdDeclared) {
			r.Violate("std-name", c, "[%s, %s] %s\noutput:\n%s", sc.Label, c18Variants[v], p, src)
		}
		r.Count("renderings."+c18Variants[v], 1)
	}
	r.Count("renderings."+c18Variants[0], 1)
	src, fail := sc.render()
	if fail != "" {
		r.Violate("std-render-failure", c, "%v: %s", sc.Paths, fail)
	} else {
		for _, p := range judgeStdOutput(src, sc.Paths, stdDeclared) {
			r.Violate("std-name", c, "[%s] %s\noutput:\n%s", sc.Label, p, src)
		}
		if r.Verbose {
			fmt.Printf("[%s] %v\n%s\n", sc.Label, sc.Paths, src)
		}
		// evidence: alias written or not
		if af, err := parser.ParseFile(token.NewFileSet(), "o.go", src, parser.ImportsOnly); err == nil {
			for _, is := range af.Imports {
				if is.Name != nil {
					r.Count("imports.aliased", 1)
				} else {
					r.Count("imports.unaliased", 1)
				}
			}
		}
	}
	r.Eval(sc.Label+"|"+strings.Join(sc.Paths, ",")+"|"+sc.Prefix, true)
	r.Count("cases."+sc.Label, 1)
}

// runGennames runs the gennames tool of the tree under test and returns the table it generates.
func runGennames() (map[string]string, string) {
	out := filepath.Join(mon.VerifDir, "bin", fmt.Sprintf("gennames-%d.go", os.Getpid()))
	defer os.Remove(out)
	cmd := exec.Command("go", "run", "./gennames", "-standard", "-novendor", "-path", "./...", "-output", out, "-name", "PackageNames")
	cmd.Dir = repoDir()
	cmd.Env = append(os.Environ(), "GOFLAGS=-mod=mod", "GOPROXY=off", "GOSUMDB=off", "GOTOOLCHAIN=local")
	if b, err := cmd.CombinedOutput(); err != nil {
		return nil, fmt.Sprintf("gennames failed: %v: %s", err, mon.Trunc(string(b), 600))
	}
	src, err := os.ReadFile(out)
	if err != nil {
		return nil, "gennames wrote no file: " + err.Error()
	}
	af, err := parser.ParseFile(token.NewFileSet(), "names.go", src, parser.SkipObjectResolution)
	if err != nil {
		return nil, "gennames output does not parse: " + err.Error()
	}
	table := map[string]string{}
	bad := ""
	ast.Inspect(af, func(n ast.Node) bool {
		cl, ok := n.(*ast.CompositeLit)
		if !ok {
			return true
		}
		for _, e := range cl.Elts {
			kv, ok := e.(*ast.KeyValueExpr)
			if !ok {
				bad = "entry that is not key: value"
				continue
			}
			k, ok1 := kv.Key.(*ast.BasicLit)
			v, ok2 := kv.Value.(*ast.BasicLit)
			if !ok1 || !ok2 {
				bad = "entry that is not \"path\": \"name\""
				continue
			}
			ks, _ := strconv.Unquote(k.Value)
			vs, _ := strconv.Unquote(v.Value)
			if _, dup := table[ks]; dup {
				bad = "duplicate entry " + ks
			}
			table[ks] = vs
		}
		return false
	})
	return table, bad
}

func c18Domain(r *mon.Run) []stdRefCase {
	std := oracle.StdPackages()
	var out []stdRefCase
	for _, sp := range std {
		out = append(out, stdRefCase{Paths: []string{sp.Path}, Label: "alone"})
		out = append(out, stdRefCase{Paths: []string{sp.Path}, Prefix: "pk", Label: "alone+prefix"})
	}
	// explicit alias hints: the alias a human would write (the last path element, which is not always the
	// package's name) and an arbitrary one; the import must then carry that alias
	for _, sp := range std {
		last := sp.Path[strings.LastIndex(sp.Path, "/")+1:]
		if token.IsIdentifier(last) {
			out = append(out, stdRefCase{Paths: []string{sp.Path}, Aliases: map[string]string{sp.Path: last}, Label: "alias=last-element"})
		}
		out = append(out, stdRefCase{Paths: []string{sp.Path}, Aliases: map[string]string{sp.Path: "ualias"}, Label: "alias=ualias"})
		out = append(out, stdRefCase{Paths: []string{"x.y/" + last, sp.Path}, Label: "after-same-named-foreign-package"})
	}
	// colliding pairs (same declared name), both orders; and triples where they exist
	byName := map[string][]string{}
	for _, sp := range std {
		for _, n := range sp.Names {
			byName[n] = append(byName[n], sp.Path)
		}
	}
	var names []string
	for n := range byName {
		names = append(names, n)
	}
	sort.Strings(names)
	for _, n := range names {
		ps := byName[n]
		if len(ps) < 2 {
			continue
		}
		for i := range ps {
			for j := range ps {
				if i != j {
					out = append(out, stdRefCase{Paths: []string{ps[i], ps[j]}, Aliases: map[string]string{ps[j]: n}, Label: "pair, the second asks for the shared name by alias"})
					out = append(out, stdRefCase{Paths: []string{ps[i], ps[j]}, Label: "pair"})
					out = append(out, stdRefCase{Paths: []string{ps[i], ps[j]}, Prefix: "pk", Label: "pair+prefix"})
				}
			}
		}
		if len(ps) >= 3 {
			out = append(out, stdRefCase{Paths: ps, Label: "group"})
			rev := append([]string(nil), ps...)
			for i, j := 0, len(rev)-1; i < j; i, j = i+1, j-1 {
				rev[i], rev[j] = rev[j], rev[i]
			}
			out = append(out, stdRefCase{Paths: rev, Label: "group"})
		}
	}
	// colliding with a versioned sibling or a numbered name (rand, rand/v2 …): every pair whose last elements match after stripping /vN
	strip := func(p string) string {
		parts := strings.Split(p, "/")
		last := parts[len(parts)-1]
		if len(parts) > 1 && len(last) >= 2 && last[0] == 'v' && last[1] >= '0' && last[1] <= '9' {
			return parts[len(parts)-2]
		}
		return last
	}
	byLast := map[string][]string{}
	for _, sp := range std {
		byLast[strip(sp.Path)] = append(byLast[strip(sp.Path)], sp.Path)
	}
	var lasts []string
	for l := range byLast {
		lasts = append(lasts, l)
	}
	sort.Strings(lasts)
	for _, l := range lasts {
		ps := byLast[l]
		if len(ps) < 2 {
			continue
		}
		for i := range ps {
			for j := range ps {
				if i != j {
					out = append(out, stdRefCase{Paths: []string{ps[i], ps[j]}, Label: "same-last-element"})
				}
			}
		}
		if len(ps) >= 3 {
			out = append(out, stdRefCase{Paths: ps, Label: "same-last-element-group"})
		}
	}
	// everything at once, in two orders
	var all []string
	for _, sp := range std {
		all = append(all, sp.Path)
	}
	out = append(out, stdRefCase{Paths: all, Label: "all-std"})
	rev := append([]string(nil), all...)
	rnd := r.Rand("C18/shuffle", 0)
	rnd.Shuffle(len(rev), func(i, j int) { rev[i], rev[j] = rev[j], rev[i] })
	out = append(out, stdRefCase{Paths: rev, Label: "all-std-shuffled"})
	return out
}

func runC18(r *mon.Run) {
	std := oracle.StdPackages()
	if len(std) < 100 {
		r.Inconclusive(fmt.Sprintf("only %d package directories found under %s", len(std), oracle.GorootSrc()))
		return
	}
	r.SetRule(fmt.Sprintf("every importable package directory of %s (%d; cmd, testdata, vendor, _/. excluded), alone with and without PackagePrefix, each case produced up to eight ways (fresh File; second render of the same File; File with a cgo preamble nothing refers to; after the references were rendered with RenderWithFile; File whose package is named like the package referred to; for cases with an alias hint also: alias given after a name hint for the same path, alias given twice; first package dot-imported and the File rendered twice); every ordered pair (and group) of packages declaring the same name or sharing the last path element (modulo /vN); all packages in one file in two orders; then the same single-reference and pair cases with ImportNames(table produced by running /repo/gennames), and every entry of that table against the package clauses. Enumerated completely in both tiers. non-trivial = every case; distinct by (label, paths, prefix)", oracle.GorootSrc(), len(std)))
	r.SetExhaustive(true)
	r.Put("std_package_dirs", len(std))
	c18NegControls(r)
	dom := c18Domain(r)
	mon.Parallel(len(dom), func(i int) { c18Case(r, dom[i], mon.Case{Gen: "std", Seed: r.Seed, Index: int64(i)}) })

	// the gennames tool of the tree under test
	table, fail := runGennames()
	if table == nil {
		r.Violate("gennames-failure", mon.Case{Gen: "gennames", Seed: r.Seed}, "%s", fail)
		return
	}
	if fail != "" {
		r.Violate("gennames-table", mon.Case{Gen: "gennames", Seed: r.Seed}, "generated table has %s", fail)
	}
	r.Put("gennames_entries", len(table))
	var tpaths []string
	for p := range table {
		tpaths = append(tpaths, p)
	}
	sort.Strings(tpaths)
	missingDir := 0
	for i, p := range tpaths {
		names := stdDeclared(p)
		if names == nil {
			missingDir++
			continue
		}
		ok := false
		for _, n := range names {
			if n == table[p] {
				ok = true
			}
		}
		if !ok {
			r.Violate("gennames-entry", mon.Case{Gen: "gennames", Seed: r.Seed, Index: int64(i)}, "gennames maps %q to %q but the package declares %v", p, table[p], names)
		}
		r.Eval("gennames-entry|"+p, true)
	}
	r.Put("gennames_entries_without_directory", missingDir)
	if len(table) < len(std)/2 {
		r.Violate("gennames-table", mon.Case{Gen: "gennames", Seed: r.Seed}, "gennames produced only %d entries for %d standard packages", len(table), len(std))
	}
	// the generated table used as ImportNames hints
	var hinted []stdRefCase
	for _, sc := range dom {
		if sc.Label == "alone" || sc.Label == "pair" || sc.Label == "same-last-element" || sc.Label == "all-std" {
			h := sc
			h.Hints = table
			h.Label = "gennames-hints:" + sc.Label
			hinted = append(hinted, h)
		}
	}
	mon.Parallel(len(hinted), func(i int) { c18Case(r, hinted[i], mon.Case{Gen: "std-hinted", Seed: r.Seed, Index: int64(i)}) })
	r.Sample(map[string]interface{}{"case": dom[len(dom)/2], "gennames_sample": fmt.Sprintf("%q -> %q", tpaths[len(tpaths)/2], table[tpaths[len(tpaths)/2]])})
}

func replayC18(r *mon.Run, c mon.Case) {
	dom := c18Domain(r)
	switch c.Gen {
	case "std":
		if int(c.Index) < len(dom) {
			c18Case(r, dom[c.Index], c)
		}
	default:
		fmt.Println("re-run the check: the gennames part is not replayed per case")
	}
}

func c18NegControls(r *mon.Run) {
	ctl := func(name, src string, paths []string) {
		r.NegControl(name, func() {
			for _, p := range judgeStdOutput([]byte(src), paths, stdDeclared) {
				r.Violate("negctl", mon.Case{Gen: "negctl"}, "%s", p)
			}
		})
	}
	ctl("wrong-name-without-alias", "package p\n\nimport \"math/rand\"\n\nvar V0 = random.StdSym0\n", []string{"math/rand"})
	ctl("numbered-name-without-alias", "package p\n\nimport (\n\t\"crypto/rand\"\n\t\"math/rand\"\n)\n\nvar V0 = rand.StdSym0\nvar V1 = rand1.StdSym1\n", []string{"math/rand", "crypto/rand"})
	ctl("alias-differs-from-qualifier", "package p\n\nimport rand1 \"crypto/rand\"\n\nvar V0 = pk_rand1.StdSym0\n", []string{"crypto/rand"})
	r.NegControl("sanity-inverse", func() {
		if len(judgeStdOutput([]byte("package p\n\nimport (\n\trand1 \"crypto/rand\"\n\t\"math/rand\"\n)\n\nvar V0 = rand.StdSym0\nvar V1 = rand1.StdSym1\n"), []string{"math/rand", "crypto/rand"}, stdDeclared)) == 0 {
			r.Violate("negctl", mon.Case{Gen: "negctl"}, "accepted (expected)")
		}
	})
}
