package main

import (
	"reflect"
	"bytes"
	"fmt"
	"math/rand"
	"regexp"
	"strings"

	"github.com/dave/jennifer/jen"

	"verifharness/mon"
)

// C13: nil and Null() items vanish from lists; Empty() keeps its separator.
// Part 1 (this file): every list construct x arity x null positions, judged on the raw rendering.
// Part 2 (c13_corpus.go): null injection into real programs (W1), judged against the source AST.

func init() {
	register("C13", "exploration", runC13, replayC13)
}

type listConstruct struct {
	name string
	mk   func(items ...jen.Code) *jen.Statement
}

func listConstructs() []listConstruct {
	custom := func(o jen.Options) func(items ...jen.Code) *jen.Statement {
		return func(items ...jen.Code) *jen.Statement { return jen.Custom(o, items...) }
	}
	after := func(head func(items ...jen.Code) *jen.Statement) func(items ...jen.Code) *jen.Statement {
		return func(items ...jen.Code) *jen.Statement { return head(items...).Block(jen.Id("body")) }
	}
	return []listConstruct{
		{"Call", func(i ...jen.Code) *jen.Statement { return jen.Id("f").Call(i...) }},
		{"Params", jen.Params}, {"List", jen.List}, {"Values", jen.Values}, {"Index", jen.Index}, {"Block", jen.Block},
		{"Defs", jen.Defs}, {"Case", jen.Case}, {"Types", func(i ...jen.Code) *jen.Statement { return jen.Id("G").Types(i...) }},
		{"Union", jen.Union}, {"Return", jen.Return}, {"If", jen.If}, {"For", jen.For}, {"Switch", jen.Switch},
		{"If+Block", after(jen.If)}, {"For+Block", after(jen.For)}, {"Switch+Block", after(jen.Switch)}, {"Case+Block", after(jen.Case)},
		{"Interface", jen.Interface}, {"Struct", jen.Struct},
		{"Append", jen.Append}, {"Min", jen.Min}, {"Max", jen.Max}, {"Make", jen.Make}, {"Print", jen.Print}, {"Println", jen.Println},
		{"Add", jen.Add},
		{"Stmt.List", func(i ...jen.Code) *jen.Statement { return jen.Id("a").Op(":=").List(i...) }},
		{"Custom(,)", custom(jen.Options{Open: "<", Close: ">", Separator: ","})},
		{"Custom(multi;)", custom(jen.Options{Open: "{", Close: "}", Separator: ";", Multi: true})},
		{"Custom(multi,)", custom(jen.Options{Open: "(", Close: ")", Separator: ",", Multi: true})},
		{"Custom(nosep)", custom(jen.Options{Open: "[", Close: "]"})},
		{"Custom(bare|)", custom(jen.Options{Separator: "|"})},
		{"BlockFunc", func(i ...jen.Code) *jen.Statement {
			return jen.BlockFunc(func(g *jen.Group) {
				for _, c := range i {
					g.Add(c)
				}
			})
		}},
		{"CallFunc", func(i ...jen.Code) *jen.Statement {
			return jen.Id("f").CallFunc(func(g *jen.Group) {
				for _, c := range i {
					g.Add(c)
				}
			})
		}},
	}
}

const nNullKinds = 13

// nullish returns an item that must render nothing.
func nullish(kind int) jen.Code {
	switch kind {
	case 0:
		return nil
	case 1:
		return jen.Null()
	case 2:
		return jen.Add()
	case 3:
		return jen.List()
	case 4:
		return jen.Union()
	case 5:
		return jen.Tag(nil)
	case 6:
		return (*jen.Statement)(nil)
	case 7:
		return jen.List(jen.Null(), jen.Add(jen.Null()))
	case 8:
		return jen.Add(nil, jen.Null())
	case 9:
		return jen.Union(nil, jen.List(nil))
	case 10:
		// a Custom group without opening and closing token is a plain list: with no items it renders nothing
		return jen.Custom(jen.Options{Separator: ","})
	case 11:
		return jen.Custom(jen.Options{Separator: ",", Multi: true}, jen.Null(), nil)
	default:
		return jen.CustomFunc(jen.Options{}, func(g *jen.Group) { g.Null(); g.Add(nil) })
	}
}

var nullKindNames = []string{"nil", "Null()", "Add()", "List()", "Union()", "Tag(nil)", "(*Statement)(nil)", "List(Null(),Add(Null()))", "Add(nil,Null())", "Union(nil,List(nil))", "Custom({,})", "Custom({, multi},Null(),nil)", "CustomFunc({},nulls)"}

type listCase struct {
	Construct int   `json:"construct"`
	Arity     int   `json:"arity"`
	Nulls     []int `json:"nulls"`  // for each of the arity+1 gaps: -1 none, else null kind (multiplicity via Extra)
	Extra     []int `json:"extra"`  // additional nulls per gap
	Empty     int   `json:"empty"`  // position of an Empty() item (-1 none)
	Name      string `json:"name"`
}

func rawOf(st jen.Code) (string, string) {
	f := jen.NewFile("p")
	f.NoFormat = true
	f.Add(st)
	buf := &bytes.Buffer{}
	var err error
	if p, what := mon.Guard(func() { err = f.Render(buf) }); p {
		return "", "panic: " + what
	}
	if err != nil {
		return "", "error: " + err.Error()
	}
	return buf.String(), ""
}

var itemRe = regexp.MustCompile(`x(\d+)q`)

func (lc listCase) items(withNulls bool, emptyAs jen.Code) []jen.Code {
	var out []jen.Code
	gap := func(g int) {
		if !withNulls || lc.Nulls[g] < 0 {
			return
		}
		out = append(out, nullish(lc.Nulls[g]))
		for e := 0; e < lc.Extra[g]; e++ {
			out = append(out, nullish((lc.Nulls[g]+e+1)%nNullKinds))
		}
	}
	for i := 0; i < lc.Arity; i++ {
		gap(i)
		if i == lc.Empty && emptyAs != nil {
			out = append(out, emptyAs)
		} else if i == lc.Empty {
			out = append(out, jen.Empty())
		} else {
			out = append(out, jen.Id(fmt.Sprintf("x%dq", i+1)))
		}
	}
	gap(lc.Arity)
	return out
}

func c13ListCase(r *mon.Run, lc listCase, c mon.Case) {
	cons := listConstructs()
	k := cons[lc.Construct]
	lc.Name = k.name
	plain, f1 := rawOf(k.mk(lc.items(false, nil)...))
	if f1 != "" {
		r.Violate("list-plain-failure", c, "%s with %d plain items does not render: %s", k.name, lc.Arity, f1)
		return
	}
	injected, f2 := rawOf(k.mk(lc.items(true, nil)...))
	desc := func() string {
		var sb strings.Builder
		fmt.Fprintf(&sb, "%s(", k.name)
		for g := 0; g <= lc.Arity; g++ {
			if lc.Nulls[g] >= 0 {
				fmt.Fprintf(&sb, "%s×%d, ", nullKindNames[lc.Nulls[g]], 1+lc.Extra[g])
			}
			if g < lc.Arity {
				if g == lc.Empty {
					sb.WriteString("Empty(), ")
				} else {
					fmt.Fprintf(&sb, "x%d, ", g+1)
				}
			}
		}
		sb.WriteString(")")
		return sb.String()
	}
	if f2 != "" {
		r.Violate("null-item-failure", c, "%s does not render: %s", desc(), f2)
		return
	}
	if injected != plain {
		r.Violate("null-item-changes-output", c, "%s renders differently from the same list without the null items\n--- with ---\n%s\n--- without ---\n%s", desc(), injected, plain)
	}
	// the slice the items were passed in stays the caller's: dropping the null items must not rearrange it, and a
	// second construct built from the same slice renders like the first
	{
		its := lc.items(true, nil)
		its = append(make([]jen.Code, 0, len(its)+3), its...)
		snap := append([]jen.Code(nil), its...)
		r1, fa := rawOf(k.mk(its...))
		r2, fb := rawOf(k.mk(its...))
		moved := -1
		for i := range its {
			if (its[i] == nil) != (snap[i] == nil) || (its[i] != nil && reflect.ValueOf(its[i]).Pointer() != reflect.ValueOf(snap[i]).Pointer()) {
				moved = i
				break
			}
		}
		switch {
		case fa != "" || fb != "":
			r.Violate("null-item-failure", c, "%s built twice from one slice does not render: %s %s", desc(), fa, fb)
		case moved >= 0:
			r.Violate("null-item-changes-output", c, "%s(items...): dropping the null items rearranged the caller's slice (element %d is another item now)", desc(), moved)
		case r1 != plain || r2 != plain:
			r.Violate("null-item-changes-output", c, "%s built twice from the same slice (items...): the renderings differ from the list without the null items\n--- first ---\n%s\n--- second ---\n%s\n--- without ---\n%s", desc(), r1, r2, plain)
		}
		r.Count("slice_reuse_cases", 1)
	}
	// exactly the remaining items, in order
	var got []string
	for _, m := range itemRe.FindAllStringSubmatch(injected, -1) {
		got = append(got, m[1])
	}
	var want []string
	for i := 0; i < lc.Arity; i++ {
		if i != lc.Empty {
			want = append(want, fmt.Sprint(i+1))
		}
	}
	if strings.Join(got, ",") != strings.Join(want, ",") {
		r.Violate("list-items-lost", c, "%s renders items %v, want %v\n%s", desc(), got, want, injected)
	}
	// other real items without text (an empty operator, an empty identifier) are items too: like Empty()
	if lc.Empty >= 0 {
		for _, alt := range []struct {
			name string
			code jen.Code
		}{{`Op("")`, jen.Op("")}, {`Id("")`, jen.Id("")}, {`Add(Empty())`, jen.Add(jen.Empty())}, {`Add(nil).Empty()`, jen.Add(nil).Empty()}, {`List().Empty()`, jen.List().Empty()}, {`Tag(nil).Empty()`, jen.Tag(nil).Empty()}, {`Null().Empty()`, jen.Null().Empty()}} {
			got, f9 := rawOf(k.mk(lc.items(true, alt.code)...))
			if f9 != "" || got != injected {
				r.Violate("empty-not-separating", c, "%s: with %s in the place of Empty() the list renders (%s)\n%s\nwant the same as with Empty()\n%s", desc(), alt.name, f9, got, injected)
			}
		}
		r.Count("empty_text_items_compared_with_Empty", 7)
	}
	// Empty() takes part in separation exactly like a real item with no text
	if lc.Empty >= 0 {
		marked, f3 := rawOf(k.mk(lc.items(true, jen.Id("EMPTYMARKQ"))...))
		if f3 != "" {
			r.Violate("list-plain-failure", c, "%s with a marker item does not render: %s", desc(), f3)
		} else if strings.Replace(marked, "EMPTYMARKQ", "", 1) != injected {
			r.Violate("empty-not-separating", c, "%s: Empty() is not separated like a real item\n--- with Empty() ---\n%s\n--- with a real item, its text removed ---\n%s", desc(), injected, strings.Replace(marked, "EMPTYMARKQ", "", 1))
		}
	}
	// two-phase: the tree that was just rendered is kept, some of its null-ish statements are given a real
	// token, and it is rendered again; the result must equal a fresh build of the final list (a render must
	// not remember that an item used to be null)
	if lc.Arity <= 8 {
		var held []*jen.Statement
		var items, fresh, bare []jen.Code
		mark := 0
		for g := 0; g <= lc.Arity; g++ {
			if lc.Nulls[g] >= 0 {
				var st, st2 *jen.Statement
				switch lc.Nulls[g] % 3 {
				case 0:
					st, st2 = jen.Null(), jen.Null()
				case 1:
					st, st2 = jen.Add(), jen.Add()
				default:
					st, st2 = jen.List(jen.Null()), jen.List(jen.Null())
				}
				held = append(held, st)
				items = append(items, st)
				mark++
				fresh = append(fresh, st2.Id(fmt.Sprintf("late%dq", mark)))
			}
			if g < lc.Arity {
				items = append(items, jen.Id(fmt.Sprintf("x%dq", g+1)))
				fresh = append(fresh, jen.Id(fmt.Sprintf("x%dq", g+1)))
				bare = append(bare, jen.Id(fmt.Sprintf("x%dq", g+1)))
			}
		}
		if len(held) > 0 {
			tree := k.mk(items...)
			// the same File object renders the tree before and after the change (a cache keyed by the File
			// would survive between the two renders)
			sameFile := jen.NewFile("p")
			sameFile.NoFormat = true
			sameFile.Add(tree)
			renderSame := func() (string, string) {
				src, fail := renderFile(sameFile)
				return string(src), fail
			}
			first, f4 := renderSame()
			for i, st := range held {
				st.Id(fmt.Sprintf("late%dq", i+1))
			}
			second, f5 := renderSame()
			if again, _ := rawOf(tree); f5 == "" && again != second {
				r.Violate("stale-nullness", c, "%s: after the change the tree renders differently in the File that rendered it before than in a fresh File\n--- same File ---\n%s\n--- fresh File ---\n%s", desc(), second, again)
			}
			want, f6 := rawOf(k.mk(fresh...))
			plain, f7 := rawOf(k.mk(bare...))
			switch {
			case f4 != "" || f5 != "" || f6 != "" || f7 != "":
				r.Violate("null-item-failure", c, "%s two-phase render failed: %s %s %s", desc(), f4, f5, f6)
			case first != plain:
				r.Violate("null-item-changes-output", c, "%s (null statements held by reference) renders differently from the list without them\n%s\n---\n%s", desc(), first, plain)
			case second != want:
				r.Violate("stale-nullness", c, "%s: after a first render, %d of the null statements were given a token; the second render differs from a fresh build of the same final tree\n--- second render ---\n%s\n--- fresh build ---\n%s", desc(), len(held), second, want)
			}
			r.Count("two_phase_cases", 1)
			// the same with Statement.RenderWithFile into one File (fragments rendered with a File never reset it)
			if cname := k.name; cname == "List" || cname == "Union" || cname == "Types" || cname == "Custom(bare|)" || cname == "Add" || cname == "Stmt.List" {
				var held2 []*jen.Statement
				var items2, fresh2 []jen.Code
				for g := 0; g <= lc.Arity; g++ {
					if lc.Nulls[g] >= 0 {
						st := jen.Null()
						held2 = append(held2, st)
						items2 = append(items2, st)
						fresh2 = append(fresh2, jen.Null().Id(fmt.Sprintf("late%dq", len(held2))))
					}
					if g < lc.Arity {
						items2 = append(items2, jen.Id(fmt.Sprintf("x%dq", g+1)))
						fresh2 = append(fresh2, jen.Id(fmt.Sprintf("x%dq", g+1)))
					}
				}
				host := func(inner *jen.Statement) *jen.Statement {
					return jen.Var().Id("v").Op("=").Id("f").Call(inner, jen.Id("endq"))
				}
				tree2 := host(k.mk(items2...))
				shared := jen.NewFile("p")
				rw := func(st *jen.Statement, f *jen.File) string {
					buf := &bytes.Buffer{}
					if err := st.RenderWithFile(buf, f); err != nil {
						return "error: " + mon.Trunc(err.Error(), 120)
					}
					return buf.String()
				}
				before := rw(tree2, shared)
				for i, st := range held2 {
					st.Id(fmt.Sprintf("late%dq", i+1))
				}
				after := rw(tree2, shared)
				want2 := rw(host(k.mk(fresh2...)), jen.NewFile("p"))
				if !strings.HasPrefix(before, "error") && !strings.HasPrefix(want2, "error") && after != want2 {
					r.Violate("stale-nullness", c, "%s: rendered with RenderWithFile into one File before and after %d null statements were given a token; the second rendering differs from a fresh build rendered with a fresh File\n--- second ---\n%s\n--- fresh ---\n%s", desc(), len(held2), after, want2)
				}
				r.Count("two_phase_cases_renderwithfile", 1)
			}
		}
	}
	if r.Verbose {
		fmt.Printf("%s\n--- injected ---\n%s\n--- plain ---\n%s\n", desc(), injected, plain)
	}
	r.Eval(desc(), true)
	r.Count("lists."+k.name, 1)
	r.Count(fmt.Sprintf("lists.arity=%02d", lc.Arity), 1)
	for g := 0; g <= lc.Arity; g++ {
		if lc.Nulls[g] >= 0 {
			r.Count("nulls."+nullKindNames[lc.Nulls[g]], int64(1+lc.Extra[g]))
		}
	}
}

// exhaustive part: every construct x arity 0..5 x every subset of gaps, null kind rotating
func c13Exhaustive(r *mon.Run) int {
	cons := listConstructs()
	type job struct {
		lc listCase
		c  mon.Case
	}
	var jobs []job
	idx := 0
	for ci := range cons {
		for arity := 0; arity <= 5; arity++ {
			for mask := 1; mask < 1<<(arity+1); mask++ {
				lc := listCase{Construct: ci, Arity: arity, Nulls: make([]int, arity+1), Extra: make([]int, arity+1), Empty: -1}
				for g := 0; g <= arity; g++ {
					if mask&(1<<g) != 0 {
						lc.Nulls[g] = (idx + g) % nNullKinds
					} else {
						lc.Nulls[g] = -1
					}
				}
				jobs = append(jobs, job{lc, mon.Case{Gen: "list-exhaustive", Seed: r.Seed, Index: int64(idx), Extra: mon.J(lc)}})
				idx++
			}
		}
	}
	mon.Parallel(len(jobs), func(i int) { c13ListCase(r, jobs[i].lc, jobs[i].c) })
	return len(jobs)
}

func c13RandomCase(r *mon.Run, idx int64) (listCase, mon.Case) {
	rnd := r.Rand("C13/list", idx)
	cons := listConstructs()
	arity := rnd.Intn(13)
	lc := listCase{Construct: rnd.Intn(len(cons)), Arity: arity, Nulls: make([]int, arity+1), Extra: make([]int, arity+1), Empty: -1}
	for g := range lc.Nulls {
		lc.Nulls[g] = -1
		if rnd.Intn(3) == 0 {
			lc.Nulls[g] = rnd.Intn(nNullKinds)
			if rnd.Intn(3) == 0 {
				lc.Extra[g] = 1 + rnd.Intn(3)
			}
		}
	}
	if arity > 0 && rnd.Intn(3) == 0 {
		lc.Empty = rnd.Intn(arity)
	}
	return lc, mon.Case{Gen: "list-random", Seed: r.Seed, Index: idx}
}

// c13GroupNull: (*Group).Null() and (*File).Null() add a null item *and return it*: it renders nothing while it is
// empty, and whatever is appended to the returned statement later (the placeholder idiom, or plain chaining) renders
// at that position.
func c13GroupNull(r *mon.Run) {
	type gcons struct {
		name string
		fn   func(cb func(*jen.Group)) *jen.Statement
		ref  func(items ...jen.Code) *jen.Statement
	}
	cons := []gcons{
		{"BlockFunc", jen.BlockFunc, jen.Block},
		{"CallFunc", func(cb func(*jen.Group)) *jen.Statement { return jen.Id("f").CallFunc(cb) }, func(i ...jen.Code) *jen.Statement { return jen.Id("f").Call(i...) }},
		{"ListFunc", jen.ListFunc, jen.List}, {"ParamsFunc", jen.ParamsFunc, jen.Params}, {"ValuesFunc", jen.ValuesFunc, jen.Values},
		{"IndexFunc", jen.IndexFunc, jen.Index}, {"DefsFunc", jen.DefsFunc, jen.Defs}, {"CaseFunc", jen.CaseFunc, jen.Case},
		{"ReturnFunc", jen.ReturnFunc, jen.Return}, {"StructFunc", jen.StructFunc, jen.Struct}, {"InterfaceFunc", jen.InterfaceFunc, jen.Interface},
		{"UnionFunc", jen.UnionFunc, jen.Union}, {"AppendFunc", jen.AppendFunc, jen.Append}, {"SwitchFunc", jen.SwitchFunc, jen.Switch},
		{"CustomFunc", func(cb func(*jen.Group)) *jen.Statement {
			return jen.CustomFunc(jen.Options{Open: "<", Close: ">", Separator: ",", Multi: true}, cb)
		}, func(i ...jen.Code) *jen.Statement {
			return jen.Custom(jen.Options{Open: "<", Close: ">", Separator: ",", Multi: true}, i...)
		}},
	}
	id := func(n string) *jen.Statement { return jen.Id(n) }
	for ci, k := range cons {
		c := mon.Case{Gen: "group-null", Seed: r.Seed, Index: int64(ci)}
		for pos := 0; pos <= 2; pos++ { // the placeholder before, between and after two real items
			for mode := 0; mode < 4; mode++ {
				chained := mode%2 == 1
				viaDo := mode >= 2 // the placeholder comes from g.Do with a callback that adds nothing
				var ph *jen.Statement
				st := k.fn(func(g *jen.Group) {
					for i := 0; i <= 2; i++ {
						if i == pos {
							null := func() *jen.Statement {
								if viaDo {
									return g.Do(func(*jen.Statement) {})
								}
								return g.Null()
							}
							if chained {
								null().Id("lateq")
							} else {
								ph = null()
							}
						}
						if i < 2 {
							g.Id(fmt.Sprintf("x%dq", i+1))
						}
					}
				})
				var with, without []jen.Code
				for i := 0; i <= 2; i++ {
					if i == pos {
						with = append(with, id("lateq"))
					}
					if i < 2 {
						with = append(with, id(fmt.Sprintf("x%dq", i+1)))
						without = append(without, id(fmt.Sprintf("x%dq", i+1)))
					}
				}
				wantWith, _ := rawOf(k.ref(with...))
				wantWithout, _ := rawOf(k.ref(without...))
				if !chained {
					if got, fail := rawOf(st); fail != "" || got != wantWithout {
						r.Violate("null-item-changes-output", c, "%s with g.Null() at position %d renders (%s)\n%s\nwant the list without it\n%s", k.name, pos, fail, got, wantWithout)
					}
					ph.Id("lateq")
				}
				if got, fail := rawOf(st); fail != "" || got != wantWith {
					r.Violate("stale-nullness", c, "%s: the statement returned by g.Null() at position %d (chained=%v) was given a token; the construct renders (%s)\n%s\nwant\n%s", k.name, pos, chained, fail, got, wantWith)
				}
				r.Count("group_null_placeholder_cases", 1)
			}
		}
		r.Eval("group-null|"+k.name, true)
	}
	// the same on a File
	c := mon.Case{Gen: "group-null", Seed: r.Seed, Index: 99}
	f := jen.NewFile("p")
	f.NoFormat = true
	f.Var().Id("x1q").Int()
	ph := f.Null()
	f.Null().Var().Id("chainq").Int()
	f.Var().Id("x2q").Int()
	before, _ := renderFile(f)
	ph.Var().Id("lateq").Int()
	after, _ := renderFile(f)
	g := jen.NewFile("p")
	g.NoFormat = true
	g.Var().Id("x1q").Int()
	g.Var().Id("chainq").Int()
	g.Var().Id("x2q").Int()
	wantBefore, _ := renderFile(g)
	h := jen.NewFile("p")
	h.NoFormat = true
	h.Var().Id("x1q").Int()
	h.Var().Id("lateq").Int()
	h.Var().Id("chainq").Int()
	h.Var().Id("x2q").Int()
	wantAfter, _ := renderFile(h)
	if string(before) != string(wantBefore) {
		r.Violate("null-item-changes-output", c, "File with f.Null() items renders\n%s\nwant\n%s", before, wantBefore)
	}
	if string(after) != string(wantAfter) {
		r.Violate("stale-nullness", c, "File: the statement returned by f.Null() was given tokens; the File renders\n%s\nwant\n%s", after, wantAfter)
	}
	r.Eval("group-null|File", true)
}

func runC13(r *mon.Run) {
	r.SetRule("part 1: every list construct (35: Call, Params, List, Values, Index, Block, Defs, Case, Types, Union, Return, If/For/Switch (+Block), Interface, Struct, built-ins, Add, Custom x5, BlockFunc, CallFunc) x arity 0-5 x every non-empty subset of gaps holding a null-ish item (13 kinds, rotating) — complete; plus random arity 0-12, multiplicities and Empty() positions; judged on the raw (NoFormat) rendering: bytes equal to the list without the nulls, items x1..xn present in order, Empty() separated like a real item. part 1b: the statement returned by (*Group).Null() in 15 …Func constructs and by (*File).Null(), before/between/after real items, empty and then given a token (placeholder idiom and chaining). part 2: null injection at every list of real programs (corpus), judged against the source AST. non-trivial = at least one null-ish item injected; distinct by case text")
	r.Assume("an empty Types() is not used as a null item (the statement does not list it); nulls are not injected next to a Dict inside Values (contract panic)")
	c13NegControls(r)
	c13GroupNull(r)
	n := c13Exhaustive(r)
	r.Put("exhaustive_subdomain", fmt.Sprintf("%d cases: 35 constructs x arity 0-5 x all non-empty subsets of gaps (complete)", n))
	m := r.Pick(6000, 1000000)
	mon.Parallel(m, func(i int) {
		lc, c := c13RandomCase(r, int64(i))
		c13ListCase(r, lc, c)
	})
	c13Corpus(r)
	lc, _ := c13RandomCase(r, 5)
	r.Sample(map[string]interface{}{"list_case": lc})
}

func replayC13(r *mon.Run, c mon.Case) {
	switch c.Gen {
	case "list-random":
		lc, cc := c13RandomCase(r, c.Index)
		c13ListCase(r, lc, cc)
	case "group-null":
		c13GroupNull(r)
	case "list-exhaustive":
		var lc listCase
		if err := jsonUnmarshal(c.Extra, &lc); err == nil {
			c13ListCase(r, lc, c)
		}
	default:
		c13CorpusReplay(r, c)
	}
}

func c13NegControls(r *mon.Run) {
	// the comparison itself is byte equality; the control shows that a separator emitted for a null item
	// or a lost item is visible in what is compared
	r.NegControl("separator-for-null-item", func() {
		a, _ := rawOf(jen.List(jen.Id("x1q"), jen.Id("x2q")))
		b := strings.Replace(a, "x1q,x2q", "x1q,,x2q", 1)
		if a != b {
			r.Violate("negctl", mon.Case{Gen: "negctl"}, "differs")
		}
	})
	r.NegControl("item-lost", func() {
		out, _ := rawOf(jen.List(jen.Id("x1q"), jen.Id("x3q")))
		var got []string
		for _, m := range itemRe.FindAllStringSubmatch(out, -1) {
			got = append(got, m[1])
		}
		if strings.Join(got, ",") != "1,2,3" {
			r.Violate("negctl", mon.Case{Gen: "negctl"}, "lost")
		}
	})
	_ = rand.Int
}
