package main

import (
	"bytes"
	"fmt"
	"go/ast"
	"go/constant"
	"go/parser"
	"go/scanner"
	"go/token"
	"go/types"
	"math/rand"
	"strconv"
	"strings"
	"unicode/utf8"

	"github.com/dave/jennifer/jen"

	"verifharness/mon"
)

// C12: string, rune and byte literals preserve their exact content and are one token (O3 + O4).

func init() {
	register("C12", "exploration", runC12, replayC12)
}

// scanTokens returns the non-comment token stream of src ("TOK lit").
func scanTokens(src []byte) (toks []string, kinds []token.Token, lits []string, errs int) {
	var sc scanner.Scanner
	fs := token.NewFileSet()
	sc.Init(fs.AddFile("x.go", fs.Base(), len(src)), src, func(token.Position, string) { errs++ }, 0)
	for {
		_, tok, lit := sc.Scan()
		if tok == token.EOF {
			break
		}
		kinds = append(kinds, tok)
		lits = append(lits, lit)
		toks = append(toks, tok.String()+" "+lit)
	}
	return
}

// judgeStringSource: src must be `package p` followed by exactly `var S<i> = <one STRING token>` per
// string, in order, and each literal must unquote to strs[i].
func judgeStringSource(src []byte, strs []string) (problems map[int]string, fatal string) {
	problems = map[int]string{}
	_, kinds, lits, errs := scanTokens(src)
	if errs > 0 {
		// continue: the per-declaration walk below localises the problem
	}
	// expected token shape: package p ; (var IDENT = STRING ;)*
	pos := 0
	expect := func(k token.Token) bool {
		if pos < len(kinds) && kinds[pos] == k {
			pos++
			return true
		}
		return false
	}
	if !(expect(token.PACKAGE) && expect(token.IDENT) && expect(token.SEMICOLON)) {
		return nil, "package clause not found"
	}
	for i, s := range strs {
		start := pos
		ok := expect(token.VAR) && expect(token.IDENT) && lits[pos-1] == fmt.Sprintf("S%d", i) && expect(token.ASSIGN)
		if !ok {
			return problems, fmt.Sprintf("token stream out of step at string %d (tokens %v): an earlier literal leaked into the code", i, lits[start:min(start+6, len(lits))])
		}
		if pos >= len(kinds) || kinds[pos] != token.STRING {
			problems[i] = fmt.Sprintf("initialiser of S%d is not a STRING token but %v %q", i, kindAt(kinds, pos), litAt(lits, pos))
			// resynchronise at the next `var S<i+1>`
			for pos < len(kinds) && !(kinds[pos] == token.VAR && pos+1 < len(lits) && lits[pos+1] == fmt.Sprintf("S%d", i+1)) {
				pos++
			}
			continue
		}
		got, err := strconv.Unquote(lits[pos])
		if err != nil {
			problems[i] = fmt.Sprintf("literal %s does not unquote: %v", mon.Trunc(lits[pos], 80), err)
		} else if got != s {
			problems[i] = fmt.Sprintf("literal %s has value %q, want %q", mon.Trunc(lits[pos], 80), mon.Trunc(got, 80), mon.Trunc(s, 80))
		}
		pos++
		if !expect(token.SEMICOLON) {
			problems[i] = fmt.Sprintf("literal of S%d is followed by %v %q: its characters leak into the surrounding code", i, kindAt(kinds, pos), litAt(lits, pos))
			for pos < len(kinds) && !(kinds[pos] == token.VAR && pos+1 < len(lits) && lits[pos+1] == fmt.Sprintf("S%d", i+1)) {
				pos++
			}
		}
	}
	if pos != len(kinds) {
		return problems, fmt.Sprintf("%d unexpected trailing tokens", len(kinds)-pos)
	}
	return problems, ""
}

func kindAt(k []token.Token, i int) token.Token {
	if i < len(k) {
		return k[i]
	}
	return token.EOF
}
func litAt(l []string, i int) string {
	if i < len(l) {
		return mon.Trunc(l[i], 60)
	}
	return ""
}
func min(a, b int) int {
	if a < b {
		return a
	}
	return b
}

func renderFile(f *jen.File) ([]byte, string) {
	buf := &bytes.Buffer{}
	var err error
	if p, what := mon.Guard(func() { err = f.Render(buf) }); p {
		return nil, "panic: " + what
	}
	if err != nil {
		return nil, "render error: " + mon.Trunc(err.Error(), 500)
	}
	return buf.Bytes(), ""
}

func stringBatchFile(strs []string, noFormat bool, mode int) ([]byte, string) {
	f := jen.NewFile("p")
	f.NoFormat = noFormat
	for i, s := range strs {
		s := s
		switch mode {
		case 0:
			f.Var().Id(fmt.Sprintf("S%d", i)).Op("=").Lit(s)
		default:
			f.Var().Id(fmt.Sprintf("S%d", i)).Op("=").LitFunc(func() interface{} { return s })
		}
	}
	return renderFile(f)
}

var adversarial = []string{
	"", " ", "\"", "`", "\\", "'", "\n", "\r", "\r\n", "\t", "\x00", "\xff", "\xfe\xff", "\xc3\x28", "\xed\xa0\x80", "\xf4\x90\x80\x80",
	"\ufeff", "\ufeffx", "x\ufeff", "\u2028", "\u2029", "\u0085", "\u00a0", "\u200b", "\ufffd", "\U0010ffff", "\x7f", "\x1b[31m",
	"\"; panic(1) //", "`; panic(1) //", "\" + x + \"", "` + x + `", "*/", "/*", "//", "\\\"", "\\`", "\\n", "%s %d %%", "${x}", "a\nb", "a\r\nb",
	"first\r\nsecond", "multi\nline\nno backquote\r", "with\nnul\x00", "with\ninvalid\xff", "with\n\ufeffbom", "a`b\nc", "trailing newline\n", "\nleading newline",
	"tab\there", "back`quote", "both \" and `", "日本語", "ünï cødé", "emoji 😀", strings.Repeat("a", 5000), strings.Repeat("\"`\\\n", 300), strings.Repeat("\xff", 100),
	"var x = 1", "package main", "}", "{", ")", "\"\"", "``", "`\n`", "x\"\ny", "\\x00", "\\u1234", "\a\b\f\v", "\x01\x02\x1f",
}

var strClasses = []func(r *rand.Rand) string{
	func(r *rand.Rand) string { return string(rune('a' + r.Intn(26))) },
	func(r *rand.Rand) string { return string(rune(' ' + r.Intn(95))) },
	func(r *rand.Rand) string { return "\n" },
	func(r *rand.Rand) string { return "\r" },
	func(r *rand.Rand) string { return "\x00" },
	func(r *rand.Rand) string { return string([]byte{byte(0x80 + r.Intn(0x80))}) },
	func(r *rand.Rand) string { return "\"" },
	func(r *rand.Rand) string { return "`" },
	func(r *rand.Rand) string { return "\\" },
	func(r *rand.Rand) string { return "\ufeff" },
	func(r *rand.Rand) string { return string(rune(0x80 + r.Intn(0x3000))) },
	func(r *rand.Rand) string { return string(rune(0x10000 + r.Intn(0x100000))) },
	func(r *rand.Rand) string { return string([]byte{byte(r.Intn(32))}) },
	func(r *rand.Rand) string { return "\t" },
	func(r *rand.Rand) string { return " " },
	func(r *rand.Rand) string { return "\u2028" },
}

func randString(r *rand.Rand) string {
	if r.Intn(12) == 0 {
		// long text (80-400 bytes) of several lines, LF / CRLF / lone CR, otherwise clean
		var sb strings.Builder
		eol := []string{"\n", "\r\n", "\r", "\n\r"}[r.Intn(4)]
		for sb.Len() < 80+r.Intn(320) {
			for i, n := 0, 3+r.Intn(30); i < n; i++ {
				sb.WriteByte(byte('a' + r.Intn(26)))
			}
			if r.Intn(5) == 0 {
				sb.WriteString("\n")
			} else {
				sb.WriteString(eol)
			}
		}
		return sb.String()
	}
	switch r.Intn(4) {
	case 0: // raw bytes
		b := make([]byte, r.Intn(40))
		r.Read(b)
		return string(b)
	default:
		// a few classes only, so that e.g. "newline + CR but no backquote" is common
		ncls := 1 + r.Intn(4)
		cls := make([]int, ncls)
		for i := range cls {
			cls[i] = r.Intn(len(strClasses))
		}
		var sb strings.Builder
		for i, n := 0, r.Intn(30); i < n; i++ {
			sb.WriteString(strClasses[cls[r.Intn(ncls)]](r))
		}
		return sb.String()
	}
}

func c12StringBatches(r *mon.Run) [][]string {
	var all []string
	all = append(all, adversarial...)
	for b := 0; b < 256; b++ {
		all = append(all, string([]byte{byte(b)}))
		all = append(all, "x"+string([]byte{byte(b)})+"y")
		all = append(all, "line1\n"+string([]byte{byte(b)})+"line2")
	}
	rnd := r.Rand("C12/strings", 0)
	for i, n := 0, r.Pick(20000, 2000000); i < n; i++ {
		all = append(all, randString(rnd))
	}
	var out [][]string
	for i := 0; i < len(all); i += 500 {
		out = append(out, all[i:min(i+500, len(all))])
	}
	return out
}

func c12StringBatch(r *mon.Run, batches [][]string, bi int) {
	strs := batches[bi]
	c := mon.Case{Gen: "strings", Seed: r.Seed, Index: int64(bi)}
	var ref []byte
	for mode := 0; mode < 3; mode++ {
		mname := []string{"Lit", "Lit+NoFormat", "LitFunc"}[mode]
		src, fail := stringBatchFile(strs, mode == 1, mode/2)
		if fail != "" {
			culprit := ""
			for _, s := range strs {
				if _, f1 := stringBatchFile([]string{s}, mode == 1, mode/2); f1 != "" {
					culprit = fmt.Sprintf("%q: %s", mon.Trunc(s, 100), mon.Trunc(f1, 300))
					break
				}
			}
			r.Violate("string-render-failure", c, "%s: batch does not render (%s); first failing string: %s", mname, mon.Trunc(fail, 200), culprit)
			continue
		}
		if mode == 0 {
			ref = src
		} else if mode == 2 && ref != nil && !bytes.Equal(ref, src) {
			r.Violate("litfunc-differs", c, "LitFunc rendering differs from Lit rendering")
		}
		probs, fatal := judgeStringSource(src, strs)
		for i, p := range probs {
			r.Violate("string-literal", mon.Case{Gen: "strings", Seed: r.Seed, Index: int64(bi), Extra: mon.J(map[string]interface{}{"i": i, "string": strconv.Quote(strs[i])})},
				"%s(%s): %s", mname, strconv.Quote(mon.Trunc(strs[i], 120)), p)
		}
		if fatal != "" {
			r.Violate("string-token-stream", c, "%s: %s", mname, fatal)
		}
		if r.Verbose {
			fmt.Printf("string batch %d mode %s: %d strings, %d problems, fatal=%q\n", bi, mname, len(strs), len(probs), fatal)
			for i, p := range probs {
				fmt.Printf("  %q: %s\n", strs[i], p)
			}
		}
	}
	// the literal between neighbours inside an expression
	st := jen.Id("f").CallFunc(func(g *jen.Group) {
		for _, s := range strs[:min(len(strs), 50)] {
			g.Lit(s)
			g.Id("sep")
		}
	})
	buf := &bytes.Buffer{}
	var err error
	if p, what := mon.Guard(func() { err = st.Render(buf) }); p || err != nil {
		r.Violate("string-in-call", c, "f(Lit(s), sep, …) does not render: %v %s", err, what)
	} else if e, perr := parser.ParseExpr(buf.String()); perr != nil {
		r.Violate("string-in-call", c, "f(Lit(s), sep, …) does not parse: %v", perr)
	} else {
		call, _ := e.(*ast.CallExpr)
		n := min(len(strs), 50)
		if call == nil || len(call.Args) != 2*n {
			r.Violate("string-in-call", c, "f(Lit(s), sep, …) has %d arguments, want %d", lenArgs(call), 2*n)
		} else {
			for i := 0; i < n; i++ {
				bl, ok := call.Args[2*i].(*ast.BasicLit)
				id, ok2 := call.Args[2*i+1].(*ast.Ident)
				if !ok || !ok2 || bl.Kind != token.STRING || id.Name != "sep" {
					r.Violate("string-in-call", c, "argument %d of f(Lit(%q), sep, …) is not one string literal followed by sep", 2*i, strs[i])
					continue
				}
				if got, err := strconv.Unquote(bl.Value); err != nil || got != strs[i] {
					r.Violate("string-in-call", c, "argument %d has value %q, want %q", 2*i, got, strs[i])
				}
			}
		}
	}
	// the literal as key and as value of a Dict (another rendering path: Dict keys are rendered for sorting first)
	{
		d := jen.Dict{}
		wantKV := map[string]bool{}
		for _, s := range strs[:min(len(strs), 60)] {
			if !wantKV[s] {
				wantKV[s] = true
				d[jen.Lit(s)] = jen.Lit(s)
			}
		}
		st := jen.Id("M").Values(d)
		buf := &bytes.Buffer{}
		var err error
		if p, what := mon.Guard(func() { err = st.Render(buf) }); p || err != nil {
			r.Violate("string-in-dict", c, "M{Lit(s): Lit(s), …} does not render: %v %s", err, what)
		} else if e, perr := parser.ParseExpr(buf.String()); perr != nil {
			r.Violate("string-in-dict", c, "M{Lit(s): Lit(s), …} does not parse: %v", perr)
		} else if cl, _ := e.(*ast.CompositeLit); cl == nil || len(cl.Elts) != len(wantKV) {
			r.Violate("string-in-dict", c, "M{Lit(s): Lit(s), …} has %d elements, want %d", lenElts(cl), len(wantKV))
		} else {
			for i, el := range cl.Elts {
				kv, _ := el.(*ast.KeyValueExpr)
				var kl, vl *ast.BasicLit
				if kv != nil {
					kl, _ = kv.Key.(*ast.BasicLit)
					vl, _ = kv.Value.(*ast.BasicLit)
				}
				if kl == nil || vl == nil || kl.Kind != token.STRING || vl.Kind != token.STRING {
					r.Violate("string-in-dict", c, "element %d of M{Lit(s): Lit(s), …} is not string literal: string literal\n%s", i, mon.Trunc(buf.String(), 600))
					break
				}
				k, e1 := strconv.Unquote(kl.Value)
				v, e2 := strconv.Unquote(vl.Value)
				if e1 != nil || e2 != nil || k != v || !wantKV[k] {
					r.Violate("string-in-dict", c, "element %d of M{Lit(s): Lit(s), …} is %s: %s — key %q and value %q should both be one of the given strings", i, mon.Trunc(kl.Value, 80), mon.Trunc(vl.Value, 80), mon.Trunc(k, 80), mon.Trunc(v, 80))
				}
			}
		}
		r.Count("strings_as_dict_key_and_value", int64(len(wantKV)))
	}
	for _, s := range strs {
		r.Eval("s|"+s, true)
	}
	r.Count("strings", int64(len(strs)))
	for _, s := range strs {
		if !utf8.ValidString(s) {
			r.Count("strings.invalid_utf8", 1)
		}
		if strings.Contains(s, "\n") {
			r.Count("strings.with_newline", 1)
		}
		if strings.Contains(s, "`") {
			r.Count("strings.with_backquote", 1)
		}
		if strings.Contains(s, "\r") {
			r.Count("strings.with_cr", 1)
		}
	}
}

func lenArgs(c *ast.CallExpr) int {
	if c == nil {
		return -1
	}
	return len(c.Args)
}

// c12BigCases: sizes a user can reach and a per-value generator does not — more than 2^14 distinct string
// literals in one File (with early ones repeated at the end), and single literals above 1 MiB that mix
// multi-byte characters.
func c12BigCases(r *mon.Run) {
	{
		n := 20000
		strs := make([]string, 0, n+200)
		for i := 0; i < n; i++ {
			strs = append(strs, fmt.Sprintf("message-%d", i))
		}
		for i := 0; i < 200; i++ {
			strs = append(strs, fmt.Sprintf("message-%d", i*7)) // early ones again
		}
		c := mon.Case{Gen: "many-strings", Seed: r.Seed}
		for mode := 0; mode < 2; mode++ {
			src, fail := stringBatchFile(strs, mode == 1, 0)
			if fail != "" {
				r.Violate("string-render-failure", c, "a File with %d string literals does not render: %s", len(strs), mon.Trunc(fail, 200))
				continue
			}
			probs, fatal := judgeStringSource(src, strs)
			for i, p := range probs {
				r.Violate("string-literal", c, "string %d of a File with %d literals (%q): %s", i, len(strs), strs[i], p)
			}
			if fatal != "" {
				r.Violate("string-token-stream", c, "%s", fatal)
			}
		}
		r.Count("strings_in_one_file", int64(len(strs)))
	}
	rnd := r.Rand("C12/huge", 0)
	for k := 0; k < r.Pick(2, 12); k++ {
		var sb strings.Builder
		size := 1<<20 + rnd.Intn(1<<19)
		alphabet := []string{"a", "é", "日", "😀", "z", " ", "\n"}
		for sb.Len() < size {
			// runs of one alphabet symbol of random length, so that multi-byte characters straddle every kind of boundary
			sym := alphabet[rnd.Intn(len(alphabet))]
			for i, m := 0, 1+rnd.Intn(5000); i < m; i++ {
				sb.WriteString(sym)
			}
		}
		s := sb.String()
		c := mon.Case{Gen: "huge-string", Seed: r.Seed, Index: int64(k)}
		for mode := 0; mode < 2; mode++ {
			src, fail := stringBatchFile([]string{s, "after"}, mode == 1, 0)
			if fail != "" {
				r.Violate("string-render-failure", c, "a %d-byte string literal does not render: %s", len(s), mon.Trunc(fail, 200))
				continue
			}
			probs, fatal := judgeStringSource(src, []string{s, "after"})
			for _, p := range probs {
				r.Violate("string-literal", c, "%d-byte string: %s", len(s), mon.Trunc(p, 300))
			}
			if fatal != "" {
				r.Violate("string-token-stream", c, "%s", fatal)
			}
		}
		r.Eval(fmt.Sprintf("huge|%d|%d", k, len(s)), true)
		r.Count("huge_strings", 1)
	}
}

// ---- runes ----

func judgeRuneSource(src []byte, runes []rune) (problems map[int]string, fatal string) {
	problems = map[int]string{}
	fset := token.NewFileSet()
	af, err := parser.ParseFile(fset, "r.go", src, parser.SkipObjectResolution)
	if err != nil {
		return nil, "does not parse: " + err.Error()
	}
	var cl *ast.CompositeLit
	ast.Inspect(af, func(n ast.Node) bool {
		if c, ok := n.(*ast.CompositeLit); ok && cl == nil {
			cl = c
		}
		return cl == nil
	})
	if cl == nil || len(cl.Elts) != len(runes) {
		return nil, fmt.Sprintf("[]rune literal has %d elements, want %d", lenElts(cl), len(runes))
	}
	for i, e := range cl.Elts {
		bl, ok := e.(*ast.BasicLit)
		if !ok || bl.Kind != token.CHAR {
			problems[i] = fmt.Sprintf("element is %T, not a rune literal", e)
			continue
		}
		v := constant.MakeFromLiteral(bl.Value, token.CHAR, 0)
		got, exact := constant.Int64Val(v)
		if v.Kind() != constant.Int || !exact || rune(got) != runes[i] {
			problems[i] = fmt.Sprintf("rune literal %s has value %#x, want %#x", bl.Value, got, runes[i])
		}
	}
	return problems, ""
}

func lenElts(c *ast.CompositeLit) int {
	if c == nil {
		return -1
	}
	return len(c.Elts)
}

func runeBatchFile(runes []rune, noFormat bool, mode int) ([]byte, string) {
	f := jen.NewFile("p")
	f.NoFormat = noFormat
	f.Var().Id("R").Op("=").Index().Rune().ValuesFunc(func(g *jen.Group) {
		for _, c := range runes {
			c := c
			if mode == 0 {
				g.LitRune(c)
			} else {
				g.LitRuneFunc(func() rune { return c })
			}
		}
	})
	return renderFile(f)
}

func c12RuneBatches(r *mon.Run) (batches [][]rune, exhaustive bool) {
	var all []rune
	valid := func(c rune) bool { return c >= 0 && c <= 0x10FFFF && !(c >= 0xD800 && c <= 0xDFFF) }
	if r.Thorough() {
		for c := rune(0); c <= 0x10FFFF; c++ {
			if valid(c) {
				all = append(all, c)
			}
		}
		exhaustive = true
	} else {
		for c := rune(0); c < 0x3000; c++ {
			all = append(all, c)
		}
		for _, c := range []rune{0xD7FE, 0xD7FF, 0xE000, 0xE001, 0xFEFF, 0xFFFD, 0xFFFE, 0xFFFF, 0x10000, 0x10001, 0x1F600, 0xFFFFF, 0x100000, 0x10FFFD, 0x10FFFE, 0x10FFFF, 0x2028, 0x2029} {
			all = append(all, c)
		}
		for p := rune(0); p <= 0x10; p++ { // last and first code point of every plane
			for _, c := range []rune{p << 16, p<<16 + 0xFFFF, p<<16 + 0xFFFE} {
				if valid(c) {
					all = append(all, c)
				}
			}
		}
		rnd := r.Rand("C12/runes", 0)
		for i := 0; i < 30000; i++ {
			c := rune(rnd.Intn(0x110000))
			if valid(c) {
				all = append(all, c)
			}
		}
	}
	for i := 0; i < len(all); i += 4096 {
		batches = append(batches, all[i:min(i+4096, len(all))])
	}
	return
}

func c12RuneBatch(r *mon.Run, batches [][]rune, bi int) {
	runes := batches[bi]
	c := mon.Case{Gen: "runes", Seed: r.Seed, Index: int64(bi)}
	var ref []byte
	for mode := 0; mode < 3; mode++ {
		mname := []string{"LitRune", "LitRune+NoFormat", "LitRuneFunc"}[mode]
		src, fail := runeBatchFile(runes, mode == 1, mode/2)
		if fail != "" {
			r.Violate("rune-render-failure", c, "%s: batch starting at %#x does not render: %s", mname, runes[0], mon.Trunc(fail, 300))
			continue
		}
		if mode == 0 {
			ref = src
		} else if mode == 2 && ref != nil && !bytes.Equal(ref, src) {
			r.Violate("litrunefunc-differs", c, "LitRuneFunc rendering differs from LitRune rendering")
		}
		probs, fatal := judgeRuneSource(src, runes)
		if fatal != "" {
			r.Violate("rune-batch", c, "%s: %s", mname, fatal)
		}
		for i, p := range probs {
			r.Violate("rune-literal", mon.Case{Gen: "runes", Seed: r.Seed, Index: int64(bi), Extra: mon.J(map[string]interface{}{"rune": fmt.Sprintf("%#x", runes[i])})}, "%s(%#x): %s", mname, runes[i], p)
		}
	}
	// runes as Dict keys (and values)
	{
		d := jen.Dict{}
		want := map[rune]bool{}
		for _, ru := range runes[:min(len(runes), 80)] {
			if !want[ru] {
				want[ru] = true
				d[jen.LitRune(ru)] = jen.LitRune(ru)
			}
		}
		st := jen.Id("M").Values(d)
		buf := &bytes.Buffer{}
		var err error
		if p, what := mon.Guard(func() { err = st.Render(buf) }); p || err != nil {
			r.Violate("rune-in-dict", c, "M{LitRune(r): LitRune(r), …} (batch starting at %#x) does not render: %v %s", runes[0], err, what)
		} else if e, perr := parser.ParseExpr(buf.String()); perr != nil {
			r.Violate("rune-in-dict", c, "M{LitRune(r): LitRune(r), …} does not parse: %v", perr)
		} else if cl, _ := e.(*ast.CompositeLit); cl == nil || len(cl.Elts) != len(want) {
			r.Violate("rune-in-dict", c, "M{LitRune(r): LitRune(r), …} has %d elements, want %d", lenElts(cl), len(want))
		} else {
			for i, el := range cl.Elts {
				kv, _ := el.(*ast.KeyValueExpr)
				var kl, vl *ast.BasicLit
				if kv != nil {
					kl, _ = kv.Key.(*ast.BasicLit)
					vl, _ = kv.Value.(*ast.BasicLit)
				}
				if kl == nil || vl == nil || kl.Kind != token.CHAR || vl.Kind != token.CHAR || kl.Value != vl.Value {
					r.Violate("rune-in-dict", c, "element %d of M{LitRune(r): LitRune(r), …} is not rune literal: the same rune literal\n%s", i, mon.Trunc(buf.String(), 400))
					break
				}
				if k, _, _, e1 := strconv.UnquoteChar(kl.Value[1:len(kl.Value)-1], '\''); e1 != nil || !want[k] {
					r.Violate("rune-in-dict", c, "element %d of M{LitRune(r): …} is %s, not one of the given runes", i, kl.Value)
				}
			}
		}
		r.Count("runes_as_dict_key_and_value", int64(len(want)))
	}
	for _, c := range runes {
		r.Eval(fmt.Sprintf("r|%x", c), true)
	}
	r.Count("runes", int64(len(runes)))
}

// ---- bytes ----

func c12Bytes(r *mon.Run) {
	c := mon.Case{Gen: "bytes", Seed: r.Seed}
	// neighbours: the File also imports a package that wants the name byte / uint8 / rune / string (as last path
	// element, as alias, as real name) — the literal must still be a constant of type byte
	neighbours := []string{"", "last:byte", "alias:byte", "name:byte", "last:uint8", "alias:uint8", "last:rune", "last:string", "alias:string"}
	for mi := 0; mi < 3*len(neighbours); mi++ {
		mode, nb := mi%3, neighbours[mi/3]
		mname := []string{"LitByte", "LitByte+NoFormat", "LitByteFunc"}[mode]
		f := jen.NewFile("p")
		f.NoFormat = mode == 1
		if nb != "" {
			mname += " next to an import that wants the name " + nb
			kind, word := strings.SplitN(nb, ":", 2)[0], strings.SplitN(nb, ":", 2)[1]
			path := "example.com/codec/" + word
			switch kind {
			case "alias":
				path = "example.com/codec/zz"
				f.ImportAlias(path, word)
			case "name":
				path = "example.com/codec/zz"
				f.ImportName(path, word)
			}
			f.Var().Id("Ref").Op("=").Qual(path, "Sym")
		}
		for b := 0; b < 256; b++ {
			b := byte(b)
			if mode == 2 {
				f.Var().Id(fmt.Sprintf("X%d", b)).Op("=").LitByteFunc(func() byte { return b })
			} else {
				f.Var().Id(fmt.Sprintf("X%d", b)).Op("=").LitByte(b)
			}
		}
		src, fail := renderFile(f)
		if fail != "" {
			r.Violate("byte-render-failure", c, "%s: %s", mname, fail)
			continue
		}
		probs, fatal := judgeByteSource(src)
		if fatal != "" {
			r.Violate("byte-batch", c, "%s: %s", mname, fatal)
		}
		for b, p := range probs {
			r.Violate("byte-literal", c, "%s(%d): %s", mname, b, p)
		}
	}
	r.EvalN("byte", 256, true)
	r.Count("bytes", 256)
	r.Count("byte_files_with_a_neighbouring_import_wanting_a_type_name", int64(3*(len(neighbours)-1)))
}

func judgeByteSource(src []byte) (map[int]string, string) {
	problems := map[int]string{}
	fset := token.NewFileSet()
	af, err := parser.ParseFile(fset, "b.go", src, parser.SkipObjectResolution)
	if err != nil {
		return nil, "does not parse: " + err.Error()
	}
	info := &types.Info{Types: map[ast.Expr]types.TypeAndValue{}}
	conf := types.Config{Error: func(error) {}}
	conf.Check("p", fset, []*ast.File{af}, info)
	seen := 0
	for _, d := range af.Decls {
		gd, ok := d.(*ast.GenDecl)
		if !ok {
			continue
		}
		for _, sp := range gd.Specs {
			vs, ok := sp.(*ast.ValueSpec)
			if !ok || len(vs.Values) != 1 {
				continue
			}
			var b int
			if _, err := fmt.Sscanf(vs.Names[0].Name, "X%d", &b); err != nil {
				continue
			}
			seen++
			tv, known := info.Types[vs.Values[0]]
			switch {
			case !known || tv.Value == nil:
				problems[b] = "not a constant expression"
			case !types.Identical(tv.Type, types.Typ[types.Uint8]):
				problems[b] = "type is " + tv.Type.String() + ", want byte"
			default:
				if got, ok := constant.Uint64Val(tv.Value); !ok || got != uint64(b) {
					problems[b] = fmt.Sprintf("value is %s, want %d", tv.Value, b)
				}
			}
		}
	}
	if seen != 256 {
		return problems, fmt.Sprintf("found %d byte declarations, want 256", seen)
	}
	return problems, ""
}

// c12PathStrings: string literals whose value is an import path the File knows in some role (dot-imported, aliased,
// blank-imported, the File's own path, "C", a hinted name): a literal is a literal whatever its text means elsewhere.
func c12PathStrings(r *mon.Run) {
	c := mon.Case{Gen: "path-strings", Seed: r.Seed}
	for _, noFormat := range []bool{false, true} {
		f := jen.NewFilePathName("my/local/pkg", "p")
		f.NoFormat = noFormat
		f.ImportAlias("strings", ".")
		f.ImportAlias("a.b/dotted", ".")
		f.ImportAlias("c.d/aliased", "al")
		f.ImportName("e.f/named", "nm")
		f.Anon("g.h/blank")
		f.CgoPreamble("#include <x.h>")
		strs := []string{"strings", "a.b/dotted", "c.d/aliased", "e.f/named", "g.h/blank", "my/local/pkg", "C", "fmt", ".", "_", "al", "nm", "p"}
		f.Var().Id("U").Op("=").Index().Interface().Values(jen.Qual("strings", "ToUpper"), jen.Qual("a.b/dotted", "D"), jen.Qual("c.d/aliased", "A"), jen.Qual("e.f/named", "N"), jen.Qual("my/local/pkg", "L"), jen.Qual("fmt", "Sprint"))
		items := make([]jen.Code, len(strs))
		d := jen.Dict{}
		for i, s := range strs {
			s := s
			if i%2 == 0 {
				items[i] = jen.Lit(s)
			} else {
				items[i] = jen.LitFunc(func() interface{} { return s })
			}
			d[jen.Lit(s)] = jen.Lit(s)
		}
		f.Var().Id("L").Op("=").Index().String().Values(items...)
		f.Var().Id("M").Op("=").Map(jen.String()).String().Values(d)
		src, fail := renderFile(f)
		if fail != "" {
			r.Violate("string-render-failure", c, "literals whose text is an import path of the File: %s", fail)
			continue
		}
		af, err := parser.ParseFile(token.NewFileSet(), "o.go", src, parser.SkipObjectResolution)
		if err != nil {
			r.Violate("string-token-stream", c, "literals whose text is an import path of the File: output does not parse: %v", err)
			continue
		}
		var list []string
		pairs := map[string]string{}
		ast.Inspect(af, func(n ast.Node) bool {
			vs, ok := n.(*ast.ValueSpec)
			if !ok || len(vs.Values) != 1 {
				return true
			}
			cl, ok := vs.Values[0].(*ast.CompositeLit)
			if !ok {
				return true
			}
			for _, el := range cl.Elts {
				switch vs.Names[0].Name {
				case "L":
					if bl, ok := el.(*ast.BasicLit); ok && bl.Kind == token.STRING {
						v, _ := strconv.Unquote(bl.Value)
						list = append(list, v)
					} else {
						list = append(list, "<not a string literal>")
					}
				case "M":
					if kv, ok := el.(*ast.KeyValueExpr); ok {
						kl, _ := kv.Key.(*ast.BasicLit)
						vl, _ := kv.Value.(*ast.BasicLit)
						if kl != nil && vl != nil {
							k, _ := strconv.Unquote(kl.Value)
							v, _ := strconv.Unquote(vl.Value)
							pairs[k] = v
						}
					}
				}
			}
			return true
		})
		if strings.Join(list, "|") != strings.Join(strs, "|") {
			r.Violate("string-literal", c, "Lit(s) for strings that are import paths / names of the File (NoFormat=%v): the list renders %q, want %q", noFormat, list, strs)
		}
		for _, s := range strs {
			if pairs[s] != s || len(pairs) != len(strs) {
				r.Violate("string-in-dict", c, "Lit(s) as Dict key and value for strings that are import paths of the File (NoFormat=%v): got %v", noFormat, pairs)
				break
			}
		}
		r.Count("strings_equal_to_import_paths_of_the_file", int64(len(strs)))
	}
	r.Eval("path-strings", true)
}

func runC12(r *mon.Run) {
	r.SetRule("Lit(string): adversarial list, every single byte alone / between letters / on a second line, random strings from 1-4 character classes (letters, printable, LF, CR, NUL, invalid UTF-8, quotes, backquote, backslash, BOM, U+2028, multi-byte) and random raw bytes; rendered formatted, NoFormat and via LitFunc in batches of 500 (`var S<i> = <lit>`), judged on the go/scanner token stream; LitRune: every valid code point in thorough (boundaries + 12k BMP + 30k random in quick); LitByte: all 256. non-trivial = every value; distinct by value")
	c12NegControls(r)
	sb := c12StringBatches(r)
	mon.Parallel(len(sb), func(i int) { c12StringBatch(r, sb, i) })
	c12BigCases(r)
	rb, exh := c12RuneBatches(r)
	mon.Parallel(len(rb), func(i int) { c12RuneBatch(r, rb, i) })
	c12Bytes(r)
	c12PathStrings(r)
	r.Put("runes_exhaustive", exh)
	r.Put("bytes_exhaustive", true)
	r.Sample(map[string]interface{}{"strings": []string{strconv.Quote(adversarial[40]), strconv.Quote(sb[len(sb)-1][0]), strconv.Quote(sb[len(sb)-1][1])}})
}

func replayC12(r *mon.Run, c mon.Case) {
	switch c.Gen {
	case "strings":
		sb := c12StringBatches(r)
		if int(c.Index) < len(sb) {
			c12StringBatch(r, sb, int(c.Index))
		}
	case "runes":
		rb, _ := c12RuneBatches(r)
		if int(c.Index) < len(rb) {
			c12RuneBatch(r, rb, int(c.Index))
		}
	case "bytes":
		c12Bytes(r)
	case "path-strings":
		c12PathStrings(r)
	}
}

func c12NegControls(r *mon.Run) {
	sctl := func(name, src string, strs []string) {
		r.NegControl(name, func() {
			probs, fatal := judgeStringSource([]byte(src), strs)
			if fatal != "" || len(probs) > 0 {
				r.Violate("negctl", mon.Case{Gen: "negctl"}, "%v %v", fatal, probs)
			}
		})
	}
	sctl("string-cr-dropped-in-raw-literal", "package p\nvar S0 = `first\r\nsecond`\n", []string{"first\r\nsecond"})
	sctl("string-leaks-code", "package p\nvar S0 = \"a\"; panic(1) //\"\n", []string{"a\"; panic(1) //"})
	sctl("string-wrong-escape", "package p\nvar S0 = \"\\ufffd\"\n", []string{"\xff"})
	sctl("string-concatenation-not-one-token", "package p\nvar S0 = \"a\" + \"b\"\n", []string{"ab"})
	r.NegControl("string-sanity-inverse", func() {
		probs, fatal := judgeStringSource([]byte("package p\nvar S0 = \"a\\\"b\"\nvar S1 = `x`\n"), []string{"a\"b", "x"})
		if fatal == "" && len(probs) == 0 {
			r.Violate("negctl", mon.Case{Gen: "negctl"}, "accepted (expected)")
		}
	})
	r.NegControl("rune-replaced-by-fffd", func() {
		probs, fatal := judgeRuneSource([]byte("package p\nvar R = []rune{'a', '\\ufffd'}\n"), []rune{'a', 0x10FFFF})
		if fatal != "" || len(probs) > 0 {
			r.Violate("negctl", mon.Case{Gen: "negctl"}, "%v %v", fatal, probs)
		}
	})
	r.NegControl("byte-untyped", func() {
		var sb strings.Builder
		sb.WriteString("package p\n")
		for b := 0; b < 256; b++ {
			if b == 7 {
				fmt.Fprintf(&sb, "var X%d = %d\n", b, b)
			} else {
				fmt.Fprintf(&sb, "var X%d = byte(%d)\n", b, b)
			}
		}
		probs, fatal := judgeByteSource([]byte(sb.String()))
		if fatal != "" || len(probs) > 0 {
			r.Violate("negctl", mon.Case{Gen: "negctl"}, "%v %v", fatal, probs)
		}
	})
}
