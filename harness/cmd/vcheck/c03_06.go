package main

import (
	"fmt"
	"regexp"
	"strings"

	"verifharness/mon"
	"verifharness/oracle"
	"verifharness/scen"
)

// C03–C06: import scenarios (W3) judged by type-checking the rendered file against fabricated
// packages (O2). The four checks share generator and oracle; each steers the generator to its own
// sub-domain and reports the clauses of its own statement.

func init() {
	for _, id := range []string{"C03", "C04", "C05", "C06"} {
		id := id
		register(id, "exploration", func(r *mon.Run) { runScen(r, id) }, func(r *mon.Run, c mon.Case) { replayScen(r, id, c) })
	}
}

func scenKnobs(prop string) scen.Knobs {
	k := scen.DefaultKnobs()
	switch prop {
	case "C04":
		k.NullCtxPct, k.BigHintsPct, k.AnonPct, k.RefProb = 40, 30, 40, 0.6
	case "C05":
		k.CollideBias, k.ReservedPct, k.PrefixPct, k.MaxPaths, k.StdPct = 80, 35, 50, 12, 15
	case "C06":
		k.DotPct, k.LocalPct, k.NearMissPct, k.PrefixPct = 40, 70, 70, 50
	}
	return k
}

var guessRe = regexp.MustCompile(`[^a-z0-9]`)

// candidate is an independent approximation of the name a path would like to have; it is used only to
// decide whether a scenario is non-trivial for C05 (competition / reserved candidates), never for a verdict.
func candidate(s *scen.Scenario, p scen.PathInfo) string {
	if h, ok := s.EffectiveHint(p.Path); ok && h.Name != "" {
		return h.Name
	}
	if p.Std {
		return p.TrueName
	}
	last := strings.TrimSuffix(p.Path, "/")
	if i := strings.LastIndex(last, "/"); i >= 0 {
		last = last[i+1:]
	}
	return guessRe.ReplaceAllString(strings.ToLower(last), "")
}

func scenNontrivial(prop string, s *scen.Scenario, o *scen.Obs) bool {
	switch prop {
	case "C03":
		return len(o.Specs) >= 2
	case "C04":
		n := len(s.AnonSet())
		if s.BigHints > 0 {
			n++
		}
		for _, rf := range s.Refs {
			if rf.Ctx >= 100 {
				n++
			}
		}
		for i, p := range s.Paths {
			if _, hinted := s.EffectiveHint(p.Path); hinted && !o.Rendered[i] {
				n++
			}
		}
		return n > 0
	case "C05":
		seen := map[string]bool{}
		for i, p := range s.Paths {
			if !o.Rendered[i] {
				continue
			}
			c := candidate(s, p)
			if c == "." {
				continue
			}
			if seen[c] || !oracle.LegalImportName(c) {
				return true
			}
			seen[c] = true
		}
		return false
	case "C06":
		for i, p := range s.Paths {
			if o.Rendered[i] && s.IsDot(p.Path) {
				return true
			}
		}
		for _, rf := range s.Refs {
			if rf.Path < 0 {
				return true
			}
		}
		return false
	}
	return true
}

func judgeScen(r *mon.Run, prop string, s *scen.Scenario, c mon.Case) *scen.Obs {
	f := s.Build()
	out, errT, panicT := scen.Render(f)
	var o *scen.Obs
	if errT != "" || panicT != "" {
		o = &scen.Obs{RenderErr: errT, Panic: panicT}
	} else {
		o = s.Observe(out)
	}
	problems := s.Judge(o)
	for _, p := range problems {
		if !strings.Contains(p.Props, prop) {
			continue
		}
		msg := p.Msg + "\nscenario: " + s.String() + "\noutput:\n" + o.Out
		if hooksAvailable {
			imp, _ := fileState(f)
			msg += fmt.Sprintf("\nimport table (hook): %v", imp)
		}
		r.Violate(p.Class, c, "%s", msg)
	}
	// every third scenario is also built in two stages with a render in between (hints and references of half of the
	// paths come after it): same oracle, since no late hint concerns a path the first render showed
	if c.Index%3 == 2 {
		if sf := s.BuildStaged(); sf != nil {
			r.Count("staged_builds", 1)
			sout, serr, spanic := scen.Render(sf)
			var so *scen.Obs
			if serr != "" || spanic != "" {
				so = &scen.Obs{RenderErr: serr, Panic: spanic}
			} else {
				so = s.Observe(sout)
			}
			for _, p := range s.Judge(so) {
				if strings.Contains(p.Props, prop) {
					r.Violate(p.Class, c, "%s\n(staged build: the odd-numbered paths were hinted and referenced after a first render)\nscenario: %s\noutput:\n%s", p.Msg, s.String(), so.Out)
				}
			}
		}
	}
	if r.Verbose {
		fmt.Printf("scenario: %s\n--- output ---\n%s\n--- problems (all properties) ---\n", s, o.Out)
		for _, p := range problems {
			fmt.Printf("  [%s] %s: %s\n", p.Props, p.Class, p.Msg)
		}
		if o.RenderErr != "" {
			fmt.Println("render error:", o.RenderErr)
		}
	}
	return o
}

func scenCase(r *mon.Run, prop string, idx int64) {
	rnd := r.Rand(prop+"/scen", idx)
	s := scen.Generate(rnd, scenKnobs(prop))
	c := mon.Case{Gen: "scen", Seed: r.Seed, Index: idx}
	o := judgeScen(r, prop, s, c)
	r.Eval(s.String(), scenNontrivial(prop, s, o))
	r.CountMap("decision.", s.Decisions(o))
	r.Count("paths", int64(len(s.Paths)))
	r.Count("refs", int64(len(s.Refs)))
	r.Count("import_specs", int64(len(o.Specs)))
	if idx < 3 {
		r.Sample(map[string]interface{}{"scenario": s.String(), "output": mon.Trunc(o.Out, 1200)})
	}
}

// reservedCase is one point of the exhaustive C05 sub-domain.
type reservedCase struct {
	Word      string `json:"word"`
	Style     string `json:"style"` // last | name | alias
	Prefix    string `json:"prefix"`
	Competing int    `json:"competing"`
}

func (rc reservedCase) scenario() *scen.Scenario {
	s := &scen.Scenario{Ctor: "NewFile", PkgName: "main", Prefix: rc.Prefix}
	switch rc.Style {
	case "last":
		s.Paths = append(s.Paths, scen.PathInfo{Path: "q.r/" + rc.Word, TrueName: "real0"})
	case "name":
		s.Paths = append(s.Paths, scen.PathInfo{Path: "q.r/zzz", TrueName: rc.Word})
		s.Hints = append(s.Hints, scen.Hint{Op: "ImportName", Path: "q.r/zzz", Name: rc.Word})
	case "alias":
		s.Paths = append(s.Paths, scen.PathInfo{Path: "q.r/zzz", TrueName: "real0"})
		s.Hints = append(s.Hints, scen.Hint{Op: "ImportAlias", Path: "q.r/zzz", Name: rc.Word})
	}
	for j := 0; j < rc.Competing; j++ {
		p := fmt.Sprintf("c%d.d/%s", j, rc.Word)
		s.Paths = append(s.Paths, scen.PathInfo{Path: p, TrueName: fmt.Sprintf("creal%d", j)})
		if j == 1 {
			// the numbered fallback itself may already be taken
			s.Hints = append(s.Hints, scen.Hint{Op: "ImportAlias", Path: p, Name: rc.Word + "1"})
		}
	}
	for i := range s.Paths {
		s.Refs = append(s.Refs, scen.Ref{Path: i, Ctx: i % 3})
	}
	return s
}

func reservedDomain() []reservedCase {
	var out []reservedCase
	// numbered fall-backs that are themselves predeclared (int8, uint16, float32, complex128 …) or taken
	for _, w := range []string{"int", "uint", "float", "complex", "x"} {
		for _, n := range []int{8, 9, 16, 17, 32, 33, 64, 65, 128, 129} {
			for _, prefix := range []string{"", "pkg"} {
				out = append(out, reservedCase{w, "last", prefix, n})
			}
		}
	}
	// every last path element of 1-3 pieces over an alphabet of character classes (punctuation, underscore, digits,
	// ASCII and non-ASCII letters and digits, upper case): what is guessed from it must be an identifier whatever
	// the order in which the classes meet
	pieces := []string{"-", ".", "_", "1", "a", "Z", "é", "日", "٣", "~"}
	for _, a := range pieces {
		out = append(out, reservedCase{a + "q", "last", "", 0}, reservedCase{a, "last", "pkg", 1})
		for _, b := range pieces {
			out = append(out, reservedCase{a + b, "last", "", 0}, reservedCase{a + b, "last", "pkg", 1})
			for _, c := range pieces {
				out = append(out, reservedCase{a + b + c, "last", "", 1}, reservedCase{a + b + c + "x", "last", "pkg", 0})
			}
		}
	}
	// stems that end in digits: their numbered fall-backs run into predeclared types (float3+2, int6+4, complex12+8 …)
	for _, w := range []string{"float3", "float6", "int1", "int3", "int6", "uint1", "uint3", "uint6", "complex6", "complex12", "int", "uint"} {
		for n := 1; n <= 10; n++ {
			out = append(out, reservedCase{w, "last", "", n})
			if n%3 == 0 {
				out = append(out, reservedCase{w, "alias", "", n}, reservedCase{w, "last", "pkg", n})
			}
		}
	}
	kw := map[string]bool{}
	for _, k := range oracle.Keywords() {
		kw[k] = true
	}
	for _, w := range scen.ReservedWords() {
		for _, style := range []string{"last", "name", "alias"} {
			if style == "name" && kw[w] {
				continue // no package can be called by a keyword, so ImportName is never given one
			}
			for _, prefix := range []string{"", "pkg"} {
				for comp := 0; comp <= 3; comp++ {
					out = append(out, reservedCase{w, style, prefix, comp})
				}
			}
		}
	}
	return out
}

func runScen(r *mon.Run, prop string) {
	n := map[string][2]int{"C03": {6000, 1000000}, "C04": {6000, 600000}, "C05": {5000, 600000}, "C06": {5000, 500000}}[prop]
	total := r.Pick(n[0], n[1])
	rule := map[string]string{
		"C03": "random import scenarios (constructor, prefix, ordered hint calls, 1-12 paths with ground-truth names, references in 12 syntactic contexts); non-trivial = rendered file has >=2 import specs; distinct by scenario text",
		"C04": "random import scenarios biased to unused hints, big ImportNames tables, Anon sets and references inside contexts that render nothing; non-trivial = at least one unused hint / null-context reference / Anon / big table",
		"C05": "exhaustive: every keyword and universe identifier x {last path element, ImportName, ImportAlias} x prefix {off,on} x 0-3 competing paths, and every last path element of 1-3 pieces over 10 character classes (punctuation, underscore, digits, upper/lower/non-ASCII letters, non-ASCII digits); plus random scenarios biased to colliding bases and reserved candidates; non-trivial = two rendered paths want the same name or a candidate is reserved",
		"C06": "random import scenarios biased to local paths, near-misses of the local path, dot imports and prefix; non-trivial = a rendered dot-imported path or a reference to the local package",
	}[prop]
	r.SetRule(rule)
	r.Assume("go/types with a fabricated importer is the ground truth for name resolution; ImportName is only ever given a package's true name; aliases and prefixes given are identifiers (keywords/predeclared included); body names V_* never collide with import names")

	// negative controls: the oracle must reject synthetic violations made on the harness side
	scenNegControls(r, prop)

	if prop == "C05" {
		dom := reservedDomain()
		mon.Parallel(len(dom), func(i int) {
			rc := dom[i]
			s := rc.scenario()
			c := mon.Case{Gen: "reserved", Seed: r.Seed, Index: int64(i), Extra: mon.J(rc)}
			o := judgeScen(r, prop, s, c)
			r.Eval(s.String(), true)
			r.CountMap("decision.", s.Decisions(o))
			r.Count("exhaustive_reserved_cases", 1)
		})
		r.Put("exhaustive_subdomain", fmt.Sprintf("%d keywords+universe identifiers x style x prefix x competing, numbered fall-backs, and all last elements of 1-3 pieces over 10 character classes = %d cases (complete)", len(scen.ReservedWords()), len(dom)))
		r.Sample(map[string]interface{}{"reserved_case": dom[len(dom)/2], "scenario": dom[len(dom)/2].scenario().String()})
	}
	mon.Parallel(total, func(i int) { scenCase(r, prop, int64(i)) })
}

func replayScen(r *mon.Run, prop string, c mon.Case) {
	switch c.Gen {
	case "scen":
		scenCase(r, prop, c.Index)
	case "reserved":
		dom := reservedDomain()
		if int(c.Index) < len(dom) {
			s := dom[c.Index].scenario()
			judgeScen(r, prop, s, c)
		}
	}
}

func scenNegControls(r *mon.Run, prop string) {
	base := func() *scen.Scenario {
		return &scen.Scenario{Ctor: "NewFile", PkgName: "main",
			Paths: []scen.PathInfo{{Path: "neg.ctl/a", TrueName: "areal"}, {Path: "neg.ctl/b", TrueName: "breal"}, {Path: "neg.ctl/c", TrueName: "creal"}},
			Hints: []scen.Hint{{Op: "ImportName", Path: "neg.ctl/a", Name: "areal"}, {Op: "ImportAlias", Path: "neg.ctl/b", Name: "bb"}, {Op: "ImportAlias", Path: "neg.ctl/c", Name: "."}},
			Refs:  []scen.Ref{{Path: 0, Ctx: 0}, {Path: 1, Ctx: 1}, {Path: 2, Ctx: 0}}}
	}
	judge := func(s *scen.Scenario, out string) {
		o := s.Observe([]byte(out))
		for _, p := range s.Judge(o) {
			if strings.Contains(p.Props, prop) {
				r.Violate(p.Class, mon.Case{Gen: "negctl"}, "%s", p.Msg)
			}
		}
	}
	s0 := base()
	out0, e, p := scen.Render(s0.Build())
	if e != "" || p != "" {
		r.Inconclusive("negative-control scenario does not render: " + e + p)
		return
	}
	good := string(out0)
	// sanity: the unmodified rendering must be accepted, otherwise the controls prove nothing
	r.NegControl("sanity-inverse", func() {
		o := s0.Observe(out0)
		if len(s0.Judge(o)) == 0 {
			r.Violate("sanity", mon.Case{Gen: "negctl"}, "clean scenario accepted (expected)")
		}
	})
	switch prop {
	case "C03":
		r.NegControl("true-name-changed-after-render", func() {
			s := base()
			s.Paths[0].TrueName = "other"
			judge(s, good)
		})
		r.NegControl("qualifier-swapped", func() {
			judge(base(), strings.Replace(good, "bb.Sym1X", "areal.Sym1X", 1))
		})
	case "C04":
		r.NegControl("extra-import-inserted", func() {
			judge(base(), strings.Replace(good, "import (", "import (\n\tzz \"neg.ctl/zz\"", 1))
		})
		r.NegControl("import-removed", func() {
			judge(base(), strings.Replace(good, "bb \"neg.ctl/b\"", "", 1))
		})
		r.NegControl("import-duplicated", func() {
			judge(base(), strings.Replace(good, "bb \"neg.ctl/b\"", "bb \"neg.ctl/b\"\n\tbb2 \"neg.ctl/b\"", 1))
		})
	case "C05":
		r.NegControl("alias-renamed-to-predeclared", func() {
			judge(base(), strings.ReplaceAll(good, "bb", "len"))
		})
		r.NegControl("alias-duplicated", func() {
			judge(base(), strings.ReplaceAll(good, "bb", "areal"))
		})
		r.NegControl("unaliased-predeclared-true-name", func() {
			s := base()
			s.Paths[0].TrueName = "string"
			judge(s, strings.ReplaceAll(good, "areal", "string"))
		})
	case "C06":
		r.NegControl("dot-spec-renamed", func() {
			judge(base(), strings.Replace(good, ". \"neg.ctl/c\"", "cc \"neg.ctl/c\"", 1))
		})
		r.NegControl("dot-ref-qualified", func() {
			judge(base(), strings.Replace(strings.Replace(good, ". \"neg.ctl/c\"", "cc \"neg.ctl/c\"", 1), "Sym2X", "cc.Sym2X", 1))
		})
		r.NegControl("local-imported", func() {
			s := base()
			s.Ctor, s.LocalPath = "NewFilePathName", "neg.ctl/b"
			judge(s, good)
		})
	}
}
