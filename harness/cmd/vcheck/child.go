package main

import (
	"fmt"
	"os"
)

var children = map[string]func(args []string){}

func childMain(args []string) {
	if len(args) == 0 || children[args[0]] == nil {
		fmt.Fprintln(os.Stderr, "unknown child kind")
		os.Exit(2)
	}
	children[args[0]](args[1:])
}
