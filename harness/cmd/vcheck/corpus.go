package main

import (
	"fmt"
	"math/rand"
	"os"
	"strings"

	"verifharness/a2j"
	"verifharness/mon"
	"verifharness/oracle"
)

// Corpus selection shared by the round-trip workloads (C01, C13, C14, C15, C09, C10).

type corpusItem struct {
	Path string `json:"path"`          // file on disk, or "" for a generated program
	Gen  int64  `json:"gen,omitempty"` // generator seed when Path == ""
	Seed int64  `json:"seed"`          // translator seed (all knob streams derive from it)
}

func (ci corpusItem) source() (name string, src []byte) {
	if ci.Path == "" {
		return fmt.Sprintf("generated-%d.go", ci.Gen), []byte(a2j.GenProgram(ci.Gen))
	}
	b, _ := os.ReadFile(ci.Path)
	return ci.Path, b
}

const (
	vendoredCorpus = "/verif/corpus/go-src"
	go126Src       = "/opt/veriftools/go1.26/src"
	modCache       = "/root/go/pkg/mod"
)

// corpusList returns the work list for a tier. nSample files are drawn (seeded) from GOROOT/src in the quick
// tier; the thorough tier takes every corpus present on the machine. passes > 1 repeats the files with
// different translator seeds.
func corpusList(r *mon.Run, stream string, nSampleQuick, nGenQuick, nGenThorough, passesThorough int) []corpusItem {
	var items []corpusItem
	add := func(files []string, pass int) {
		for _, f := range files {
			items = append(items, corpusItem{Path: f, Seed: mon.DeriveSeed(r.Seed, stream+"/"+f, int64(pass))})
		}
	}
	vend := a2j.ListGoFiles(vendoredCorpus)
	repo := a2j.ListGoFiles(repoDir())
	goroot := a2j.ListGoFiles(oracle.GorootSrc())
	r.Put("corpus.vendored_files", len(vend))
	r.Put("corpus.repo_files", len(repo))
	r.Put("corpus.goroot_files", len(goroot))
	if len(vend) == 0 {
		r.Inconclusive("vendored corpus /verif/corpus/go-src is missing")
	}
	if !r.Thorough() {
		add(vend, 0)
		add(repo, 0)
		if len(goroot) > 0 {
			rnd := rand.New(rand.NewSource(mon.DeriveSeed(r.Seed, stream+"/sample", 0)))
			perm := rnd.Perm(len(goroot))
			if nSampleQuick > len(perm) {
				nSampleQuick = len(perm)
			}
			var pick []string
			for _, i := range perm[:nSampleQuick] {
				pick = append(pick, goroot[i])
			}
			add(pick, 0)
		}
		for i := 0; i < nGenQuick; i++ {
			items = append(items, corpusItem{Gen: mon.DeriveSeed(r.Seed, stream+"/gen", int64(i)), Seed: mon.DeriveSeed(r.Seed, stream+"/genseed", int64(i))})
		}
		return items
	}
	g126 := a2j.ListGoFiles(go126Src)
	mods := a2j.ListGoFiles(modCache)
	r.Put("corpus.go1.26_files", len(g126))
	r.Put("corpus.modcache_files", len(mods))
	for pass := 0; pass < passesThorough; pass++ {
		add(vend, pass)
		add(repo, pass)
		add(goroot, pass)
		add(g126, pass)
		add(mods, pass)
	}
	for i := 0; i < nGenThorough; i++ {
		items = append(items, corpusItem{Gen: mon.DeriveSeed(r.Seed, stream+"/gen", int64(i)), Seed: mon.DeriveSeed(r.Seed, stream+"/genseed", int64(i))})
	}
	return items
}

// mergeStats folds a translator histogram into the run's counters (maxima are kept as maxima).
func mergeStats(r *mon.Run, stats map[string]int) {
	plain := map[string]int{}
	for k, v := range stats {
		if strings.HasPrefix(k, "maxarity.") {
			r.Max("translated."+k, int64(v))
		} else {
			plain[k] = v
		}
	}
	r.CountMap("translated.", plain)
}

func shortPath(p string) string {
	for _, pre := range []string{vendoredCorpus + "/", oracle.GorootSrc() + "/", go126Src + "/", modCache + "/"} {
		if strings.HasPrefix(p, pre) {
			return strings.TrimPrefix(p, pre)
		}
	}
	return p
}
