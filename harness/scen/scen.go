// Package scen generates import scenarios (W3): a File constructor, an ordered list of hint calls,
// and a body of qualified references, each path with a ground-truth package name, and checks the
// rendered file by type-checking it against fabricated packages (O2).
package scen

import (
	"bytes"
	"fmt"
	"go/ast"
	"go/parser"
	"go/token"
	"go/types"
	"math/rand"
	"sort"
	"strconv"
	"strings"
	"sync"

	"github.com/dave/jennifer/jen"

	"verifharness/mon"
	"verifharness/oracle"
)

type PathInfo struct {
	Path     string `json:"path"`
	TrueName string `json:"true_name"`
	Std      bool   `json:"std,omitempty"`
}

type Hint struct {
	Op    string            `json:"op"` // ImportName ImportNames ImportAlias Anon CgoPreamble
	Path  string            `json:"path,omitempty"`
	Name  string            `json:"name,omitempty"`
	Names map[string]string `json:"names,omitempty"`
}

type Ref struct {
	Path int `json:"path"` // index into Paths, -1 = local package
	Ctx  int `json:"ctx"`
}

type Scenario struct {
	EmptyBody int // 0: ordinary body; 1: nothing added to the File; 2: only items that render nothing (the blank-import-only file)

	Ctor      string     `json:"ctor"`
	LocalPath string     `json:"local_path,omitempty"`
	PkgName   string     `json:"pkg_name"`
	Prefix    string     `json:"prefix,omitempty"`
	NoFormat  bool       `json:"no_format,omitempty"`
	Hints     []Hint     `json:"hints"`
	Paths     []PathInfo `json:"paths"`
	Refs      []Ref      `json:"refs"`
	BigHints  int        `json:"big_hints,omitempty"` // size of an unused ImportNames table
	Canonical string     `json:"canonical,omitempty"` // File.CanonicalPath (an annotation only: never a second local path)
}

// Knobs steer the generator towards the sub-domain a check is about.
type Knobs struct {
	MaxPaths    int
	CollideBias int     // 0..100: probability (%) that a new path competes for the base name of an earlier one
	ReservedPct int     // probability that a path / hint uses a keyword or predeclared identifier
	DotPct      int     // probability that a path gets ImportAlias(p, ".")
	LocalPct    int     // probability that the file has a local path
	NearMissPct int     // probability of adding near-misses of the local path
	PrefixPct   int     // probability of PackagePrefix
	NullCtxPct  int     // probability that a reference sits in a context that renders nothing
	BigHintsPct int     // probability of a big unused hint table
	AnonPct     int     // probability of an Anon import of an otherwise unused path
	AllowC      bool    // include "C"
	StdPct      int     // probability that a path is a std package
	RefProb     float64 // probability that a path is referenced at all
	ForcePaths  []string
}

func DefaultKnobs() Knobs {
	return Knobs{MaxPaths: 8, CollideBias: 40, ReservedPct: 15, DotPct: 10, LocalPct: 30, NearMissPct: 30, PrefixPct: 30,
		NullCtxPct: 10, BigHintsPct: 5, AnonPct: 15, AllowC: true, StdPct: 25, RefProb: 0.85}
}

var domains = []string{"a.b", "c.d", "e.f", "g", "h.io/u", "x.y/z/w", "k8s.io", "日本.jp"}
var bases = []string{"x", "X", "d", "y", "go", "v2", "x1", "x2", "pkg", "pkg_x", "pkg_d", "1x", "123", "x-y", "x.y", "日本", "ünï", "--", "a_b", "rand", "template", "fmt", "os", "main", "init", "c", "C", "p1", "x²", "½", "Ⅷ", "①x", "x٣", "int", "uint", "float", "complex", "٣", "İstanbul", "\u212aelvin", "\u2126mega", "Ma\u1e9ee", "Ⱥb"}
var stdPool = []string{"fmt", "os", "io", "math/rand", "crypto/rand", "text/template", "html/template", "net/http", "net/http/pprof", "runtime/pprof", "go/scanner", "text/scanner", "encoding/json", "unsafe", "go/ast", "math/rand/v2", "internal/abi", "sort", "errors", "context", "path", "path/filepath", "strings", "bytes", "go/types", "go/token", "sync/atomic", "time"}
var aliasPool = []string{"_", "x", "y", "d", "rand", "fmt", "zz", "x1", "x2", "pkg_d", "pkg_x", "os", "X", "ünï", "a_b", "template", "c", "C", "go1", "any1", "_x", "x_"}
var prefixPool = []string{"pkg", "p1", "X", "go", "a_b"}
var trueNamePool = []string{"x", "d", "real", "pkg_d", "pkg_x", "x1", "rand", "fmt", "y", "zz", "go1", "größe", "naïve", "日本", "x_1", "Rand", "rand1", "p1_rand1"}

var (
	reservedOnce  sync.Once
	reservedWords []string
)

// ReservedWords returns keywords + universe identifiers (independent oracle lists).
func ReservedWords() []string {
	reservedOnce.Do(func() { reservedWords = append(oracle.Keywords(), oracle.UniverseNames()...) })
	return reservedWords
}

const NCtx = 13

// Generate builds a random scenario.
func Generate(r *rand.Rand, k Knobs) *Scenario {
	s := &Scenario{PkgName: "main"}
	pct := func(p int) bool { return r.Intn(100) < p }
	used := map[string]bool{}
	if pct(k.LocalPct) {
		locals := []string{"my/local", "a.b/x", "x", "my/Local/pkg", "h.io/u/d", "my/local/", "e.f/x1", "my/mod/v2", "h.io/u/d/v3", "g/y/v10"}
		s.LocalPath = locals[r.Intn(len(locals))]
		used[s.LocalPath] = true
		if r.Intn(2) == 0 {
			s.Ctor = "NewFilePath"
			s.PkgName = "" // inferred by jennifer
		} else {
			s.Ctor = "NewFilePathName"
			s.PkgName = []string{"main", "local", "x", "x_test", "local_test"}[r.Intn(5)]
		}
	} else {
		s.Ctor = "NewFile"
	}
	if pct(k.PrefixPct) {
		s.Prefix = prefixPool[r.Intn(len(prefixPool))]
	}
	s.NoFormat = r.Intn(6) == 0 // gofmt can repair or hide what the raw rendering gets wrong
	forceName := map[string]bool{} // paths whose real name must be given by ImportName
	addPath := func(p string, std bool) int {
		if p == "" || used[p] {
			return -1
		}
		used[p] = true
		if oracle.StdName(p) != "" {
			std = true // e.g. the single-element path "fmt" is the real fmt
		}
		pi := PathInfo{Path: p, Std: std}
		if std {
			pi.TrueName = oracle.StdName(p)
			if pi.TrueName == "" {
				return -1
			}
		} else if p == "C" {
			pi.TrueName = "C"
		} else {
			switch r.Intn(5) {
			case 0:
				pi.TrueName = fmt.Sprintf("real%d", len(s.Paths))
				if s.Prefix != "" && len(s.Paths) > 0 && r.Intn(3) == 0 {
					// a package whose real name is what another path's alias becomes under the File's prefix
					other := strings.TrimSuffix(s.Paths[r.Intn(len(s.Paths))].Path, "/")
					if j := strings.LastIndex(other, "/"); j >= 0 {
						other = other[j+1:]
					}
					if cand := s.Prefix + "_" + strings.ToLower(other); token.IsIdentifier(cand) {
						pi.TrueName = cand
						forceName[p] = true
					}
				}
			case 1:
				pi.TrueName = trueNamePool[r.Intn(len(trueNamePool))]
			case 2:
				if pct(k.ReservedPct * 2) {
					u := oracle.UniverseNames()
					pi.TrueName = u[r.Intn(len(u))] // a package may legally be called len, any, string…
				} else {
					pi.TrueName = fmt.Sprintf("nm%d", r.Intn(3))
				}
			default:
				// the name a human would expect: last element if it is an identifier
				last := p
				if i := strings.LastIndex(strings.TrimSuffix(p, "/"), "/"); i >= 0 {
					last = strings.TrimSuffix(p, "/")[i+1:]
				}
				if token.IsIdentifier(last) && last != "_" {
					pi.TrueName = last
				} else {
					pi.TrueName = fmt.Sprintf("real%d", len(s.Paths))
				}
			}
		}
		s.Paths = append(s.Paths, pi)
		return len(s.Paths) - 1
	}
	n := 1 + r.Intn(k.MaxPaths)
	for _, p := range k.ForcePaths {
		addPath(p, oracle.StdName(p) != "")
	}
	var lastBase string
	for i := 0; i < n; i++ {
		switch {
		case pct(k.StdPct):
			addPath(stdPool[r.Intn(len(stdPool))], true)
		case k.AllowC && r.Intn(25) == 0:
			addPath("C", false)
		case r.Intn(25) == 0:
			// a vendored copy: the path ends in the path of a std package (or of another path of the scenario); it is a
			// package of its own, with a name of its own
			tail := stdPool[r.Intn(len(stdPool))]
			if len(s.Paths) > 0 && r.Intn(2) == 0 {
				tail = strings.TrimSuffix(s.Paths[r.Intn(len(s.Paths))].Path, "/")
			}
			if tail != "C" && tail != "" {
				addPath([]string{"k8s.io/kubernetes/vendor/", "x.y/app/vendor/", "vendor/"}[r.Intn(3)]+tail, false)
			}
		default:
			base := bases[r.Intn(len(bases))]
			if r.Intn(10) == 0 {
				// a last element composed of 1-4 pieces of different character classes, in any order
				pieces := []string{"-", ".", "_", "1", "9", "q", "x", "Z", "é", "日", "٣", "~", "@", "+", "v2"}
				base = ""
				for j := 1 + r.Intn(4); j > 0; j-- {
					base += pieces[r.Intn(len(pieces))]
				}
			}
			if lastBase != "" && pct(k.CollideBias) {
				base = lastBase
				if r.Intn(4) == 0 {
					base = strings.ToUpper(base)
				}
			}
			if pct(k.ReservedPct) {
				rw := ReservedWords()
				base = rw[r.Intn(len(rw))]
			}
			lastBase = base
			p := domains[r.Intn(len(domains))] + "/" + base
			if r.Intn(15) == 0 {
				p += "/"
				if r.Intn(3) == 0 {
					p += "/" // two trailing slashes: only one is tolerated when the name is guessed
				}
			}
			if r.Intn(30) == 0 {
				p = base // single-element path
			}
			addPath(p, false)
		}
	}
	if s.LocalPath != "" && pct(k.NearMissPct) {
		l := s.LocalPath
		near := []string{l + "/sub", "sub/" + l, strings.ToUpper(l[:1]) + l[1:], l + "/", "x/" + l, l + "x", l[:len(l)-1]}
		for _, p := range near {
			if r.Intn(2) == 0 {
				addPath(p, false)
			}
		}
	}
	// hints, in random call order
	for i, pi := range s.Paths {
		if pi.Path == "C" && r.Intn(3) > 0 {
			continue
		}
		switch {
		case forceName[pi.Path]:
			s.Hints = append(s.Hints, Hint{Op: "ImportName", Path: pi.Path, Name: pi.TrueName})
		case pct(k.DotPct):
			s.Hints = append(s.Hints, Hint{Op: "ImportAlias", Path: pi.Path, Name: "."})
		case r.Intn(4) == 0:
			s.Hints = append(s.Hints, Hint{Op: "ImportName", Path: pi.Path, Name: pi.TrueName})
		case r.Intn(4) == 0:
			a := aliasPool[r.Intn(len(aliasPool))]
			if pct(k.ReservedPct) {
				rw := ReservedWords()
				a = rw[r.Intn(len(rw))]
			}
			if pct(k.CollideBias) && i > 0 {
				// compete with an earlier path's expected name
				a = s.Paths[r.Intn(i)].TrueName
			}
			if r.Intn(4) == 0 {
				// the alias a human would write: the last path element (the real name may well differ)
				last := strings.TrimSuffix(pi.Path, "/")
				if j := strings.LastIndex(last, "/"); j >= 0 {
					last = last[j+1:]
				}
				if token.IsIdentifier(last) {
					a = last
				}
			}
			s.Hints = append(s.Hints, Hint{Op: "ImportAlias", Path: pi.Path, Name: a})
		case r.Intn(8) == 0:
			m := map[string]string{pi.Path: pi.TrueName}
			for j := 0; j < r.Intn(3); j++ {
				q := s.Paths[r.Intn(len(s.Paths))]
				m[q.Path] = q.TrueName
			}
			s.Hints = append(s.Hints, Hint{Op: "ImportNames", Names: m})
		}
	}
	// a project-wide hint table may well mention the file's own package (it never becomes an import)
	if s.LocalPath != "" && r.Intn(6) == 0 {
		switch r.Intn(3) {
		case 0:
			s.Hints = append(s.Hints, Hint{Op: "ImportAlias", Path: s.LocalPath, Name: "."})
		case 1:
			s.Hints = append(s.Hints, Hint{Op: "ImportAlias", Path: s.LocalPath, Name: "self"})
		default:
			s.Hints = append(s.Hints, Hint{Op: "ImportName", Path: s.LocalPath, Name: "selfname"})
		}
	}
	// degenerate hints: an empty name or alias is tolerated and means "no hint" (it also cancels an earlier hint for
	// the same path)
	if len(s.Paths) > 0 && r.Intn(10) == 0 {
		pi := s.Paths[r.Intn(len(s.Paths))]
		if pi.Path != "C" {
			switch r.Intn(3) {
			case 0:
				s.Hints = append(s.Hints, Hint{Op: "ImportName", Path: pi.Path, Name: ""})
			case 1:
				s.Hints = append(s.Hints, Hint{Op: "ImportAlias", Path: pi.Path, Name: ""})
			default:
				s.Hints = append(s.Hints, Hint{Op: "ImportNames", Names: map[string]string{pi.Path: "", "unused.empty/hint": ""}})
			}
		}
	}
	// a hint may be overridden by a later one for the same path (last call wins)
	if len(s.Hints) > 0 && r.Intn(6) == 0 {
		h := s.Hints[r.Intn(len(s.Hints))]
		if h.Op == "ImportAlias" || h.Op == "ImportName" {
			pi := s.pathIndex(h.Path)
			if pi >= 0 {
				s.Hints = append(s.Hints, Hint{Op: "ImportName", Path: h.Path, Name: s.Paths[pi].TrueName})
			}
		}
	}
	r.Shuffle(len(s.Hints), func(i, j int) { s.Hints[i], s.Hints[j] = s.Hints[j], s.Hints[i] })
	if pct(k.BigHintsPct) {
		s.BigHints = 50 + r.Intn(450)
	}
	// cgo preambles: "C" is then imported even if nothing refers to it
	if k.AllowC && r.Intn(12) == 0 {
		if s.pathIndex("C") < 0 {
			addPath("C", false)
		}
		for i, n := 0, 1+r.Intn(2); i < n; i++ {
			at := r.Intn(len(s.Hints) + 1)
			pre := []string{"#include <a.h>", "#include <b.h>\nvoid f() {}\n", "// #cgo LDFLAGS: -lm"}[r.Intn(3)]
			s.Hints = append(s.Hints[:at], append([]Hint{{Op: "CgoPreamble", Name: pre}}, s.Hints[at:]...)...)
		}
	}
	// a canonical import path annotation, often one of the paths the body refers to
	if len(s.Paths) > 0 && r.Intn(8) == 0 {
		s.Canonical = s.Paths[r.Intn(len(s.Paths))].Path
		if s.Canonical == "C" {
			s.Canonical = "vanity.io/pkg"
		}
	}
	// references
	anon := map[int]bool{}
	for i := range s.Paths {
		if r.Float64() < k.RefProb {
			nref := 1 + r.Intn(3)
			for j := 0; j < nref; j++ {
				ctx := r.Intn(NCtx)
				if pct(k.NullCtxPct) {
					ctx = 100 + r.Intn(6)
				}
				s.Refs = append(s.Refs, Ref{Path: i, Ctx: ctx})
			}
			if pct(k.AnonPct/2) && s.Paths[i].Path != "C" {
				anon[i] = true // Anon(p) and references to p: the anonymous import is upgraded to a named one
			}
			if s.IsDot(s.Paths[i].Path) && r.Intn(4) == 0 {
				anon[i] = true // blank-imported, dot-hinted and referenced: exactly one `. "path"` spec
			}
		} else if pct(k.AnonPct * 3) {
			anon[i] = true
		}
	}
	for i := range s.Paths { // in path order: the harness itself must not depend on map iteration
		if anon[i] {
			s.Hints = append(s.Hints, Hint{Op: "Anon", Path: s.Paths[i].Path})
		}
	}
	// extra anonymous imports of paths that exist only for that
	for j := 0; j < 3; j++ {
		if pct(k.AnonPct) {
			p := fmt.Sprintf("anon.only/%s%d", bases[r.Intn(len(bases))], j)
			if addPath(p, false) >= 0 {
				at := r.Intn(len(s.Hints) + 1)
				s.Hints = append(s.Hints[:at], append([]Hint{{Op: "Anon", Path: p}}, s.Hints[at:]...)...)
			}
		}
	}
	if s.LocalPath != "" {
		for j := 0; j < 1+r.Intn(2); j++ {
			s.Refs = append(s.Refs, Ref{Path: -1, Ctx: r.Intn(NCtx)})
		}
	}
	r.Shuffle(len(s.Refs), func(i, j int) { s.Refs[i], s.Refs[j] = s.Refs[j], s.Refs[i] })
	if r.Intn(14) == 0 {
		// the blank-import-only file (tools.go, a cgo stub): hints, anonymous imports and preambles, but no code
		s.EmptyBody = 1 + r.Intn(2)
		s.Refs = nil
	}
	return s
}

func (s *Scenario) pathIndex(p string) int {
	for i, pi := range s.Paths {
		if pi.Path == p {
			return i
		}
	}
	return -1
}

// EffectiveHint returns the last hint given for path ("" op if none). Anon is reported separately.
func (s *Scenario) EffectiveHint(path string) (h Hint, ok bool) {
	for _, x := range s.Hints {
		switch x.Op {
		case "ImportName", "ImportAlias":
			if x.Path == path {
				h, ok = x, true
			}
		case "ImportNames":
			if n, in := x.Names[path]; in {
				h, ok = Hint{Op: "ImportName", Path: path, Name: n}, true
			}
		}
	}
	if ok && h.Name == "" {
		return Hint{}, false // an empty name is no hint at all (and it replaced whatever was hinted before)
	}
	return
}

func (s *Scenario) IsDot(path string) bool {
	h, ok := s.EffectiveHint(path)
	return ok && h.Op == "ImportAlias" && h.Name == "."
}

func (s *Scenario) AnonSet() map[string]bool {
	m := map[string]bool{}
	for _, h := range s.Hints {
		if h.Op == "Anon" {
			m[h.Path] = true
		}
	}
	return m
}

func (s *Scenario) String() string {
	var b strings.Builder
	fmt.Fprintf(&b, "%s(%q,%q) prefix=%q noformat=%v canonical=%q", s.Ctor, s.LocalPath, s.PkgName, s.Prefix, s.NoFormat, s.Canonical)
	if s.EmptyBody > 0 {
		fmt.Fprintf(&b, " emptybody=%d", s.EmptyBody)
	}
	for _, h := range s.Hints {
		if h.Op == "ImportNames" {
			fmt.Fprintf(&b, " ImportNames(%v)", h.Names)
		} else {
			fmt.Fprintf(&b, " %s(%q,%q)", h.Op, h.Path, h.Name)
		}
	}
	if s.BigHints > 0 {
		fmt.Fprintf(&b, " +ImportNames(%d unused)", s.BigHints)
	}
	b.WriteString(" | paths:")
	for i, p := range s.Paths {
		fmt.Fprintf(&b, " %d=%q(%s)", i, p.Path, p.TrueName)
	}
	b.WriteString(" | refs:")
	for _, rf := range s.Refs {
		fmt.Fprintf(&b, " %d@%d", rf.Path, rf.Ctx)
	}
	return b.String()
}

func sym(i int) string { return fmt.Sprintf("Sym%dX", i) }
func typ(i int) string { return fmt.Sprintf("Typ%dX", i) }

const localSym = "V_localsym"
const localTyp = "V_localtyp"

// NewFile constructs the jen.File of the scenario and applies the hints (no body yet).
func (s *Scenario) NewFile() *jen.File {
	var f *jen.File
	switch s.Ctor {
	case "NewFilePath":
		f = jen.NewFilePath(s.LocalPath)
	case "NewFilePathName":
		f = jen.NewFilePathName(s.LocalPath, s.PkgName)
	default:
		f = jen.NewFile(s.PkgName)
	}
	f.PackagePrefix = s.Prefix
	f.NoFormat = s.NoFormat
	f.CanonicalPath = s.Canonical
	if s.BigHints > 0 {
		m := map[string]string{}
		for i := 0; i < s.BigHints; i++ {
			m[fmt.Sprintf("unused.hints/p%d/%s", i, bases[i%len(bases)])] = fmt.Sprintf("u%d", i)
		}
		f.ImportNames(m)
	}
	for _, h := range s.Hints {
		switch h.Op {
		case "ImportName":
			f.ImportName(h.Path, h.Name)
		case "ImportAlias":
			f.ImportAlias(h.Path, h.Name)
		case "ImportNames":
			f.ImportNames(h.Names)
		case "Anon":
			f.Anon(h.Path)
		case "CgoPreamble":
			f.CgoPreamble(h.Name)
		}
	}
	return f
}

// RefCode builds the top-level declaration holding reference number n.
func (s *Scenario) RefCode(n int, rf Ref) jen.Code {
	var path, sy, ty string
	if rf.Path < 0 {
		path, sy, ty = s.LocalPath, localSym, localTyp
	} else {
		path, sy, ty = s.Paths[rf.Path].Path, sym(rf.Path), typ(rf.Path)
	}
	isC := path == "C"
	if isC && rf.Ctx < 100 {
		// C symbols are not type-checked (FakeImportC); keep them in value position
		return jen.Var().Id(fmt.Sprintf("V_%d", n)).Op("=").Qual("C", sy)
	}
	v := func() *jen.Statement { return jen.Qual(path, sy) }
	t := func() *jen.Statement { return jen.Qual(path, ty) }
	name := fmt.Sprintf("V_%d", n)
	switch rf.Ctx {
	case 0:
		return jen.Var().Id(name).Op("=").Add(v())
	case 1:
		return jen.Func().Id(name).Params().Block(jen.Id("_").Op("=").Add(v()), jen.Id("_").Op("=").Add(v()).Op("+").Lit(1))
	case 2:
		return jen.Var().Id(name).Op("=").Map(jen.Int()).Int().Values(jen.Dict{v(): jen.Lit(1), jen.Lit(-1): jen.Lit(2)})
	case 3:
		return jen.Var().Id(name).Op("=").Map(jen.Int()).Int().Values(jen.Dict{jen.Lit(1): v(), jen.Lit(2): jen.Lit(2)})
	case 4:
		return jen.Func().Id(name).Params(jen.Id("a").Int()).Block(jen.Switch(jen.Id("a")).Block(jen.Case(v()).Block(jen.Return()), jen.Default().Block()))
	case 5:
		return jen.Var().Id(name).Id("V_Gen").Types(t())
	case 6:
		return jen.Type().Id(name).Struct(jen.Id("A").Add(t()).Tag(map[string]string{"json": "a"}), jen.Id("B").Index().Add(t()))
	case 7:
		return jen.Var().Id(name).Op("=").Index().Int().Values(jen.Parens(v()), jen.List(v(), jen.Lit(3)))
	case 8:
		return jen.Func().Id(name).Params(jen.Id("a").Add(t())).Add(t()).Block(jen.Return(jen.Id("a")))
	case 9:
		return jen.Var().Id(name).Op("=").Func().Params().Int().Block(jen.If(v().Op(">").Lit(0)).Block(jen.Return(v())).Else().Block(jen.For(jen.Id("i").Op(":=").Lit(0), jen.Id("i").Op("<").Add(v()), jen.Id("i").Op("++")).Block()), jen.Return(jen.Lit(0)))
	case 10:
		return jen.Var().Id(name).Op("=").Add(t()).Call(v())
	case 11:
		return jen.Var().Id(name).Op("=").Do(func(st *jen.Statement) { st.Add(v()) })
	case 12:
		// items without text (Empty, an empty operator, an empty Add) between a name and a qualified type: the
		// qualifier stays a token of its own
		return jen.Type().Id(name).Struct(jen.Id("A").Empty().Add(t()), jen.Id("B").Op("").Add(t()), jen.Id("C").Add().Add(t()).Tag(map[string]string{"k": "v"}))
	// contexts that render nothing: the reference must not produce an import
	case 100:
		return jen.Var().Id(name).Op("=").Map(jen.Int()).Int().Values(jen.Dict{v(): jen.Null(), jen.Lit(1): jen.Lit(1)})
	case 101:
		return jen.Var().Id(name).Op("=").Map(jen.Int()).Int().Values(jen.Dict{jen.Null(): v(), jen.Lit(1): jen.Lit(1)})
	case 102:
		return jen.Var().Id(name).Op("=").Map(jen.Int()).Int().Values(jen.Dict{v(): jen.Add(jen.Null(), jen.Tag(nil)), jen.Lit(1): jen.Lit(1)})
	case 103:
		// built, but never added to anything that is rendered
		_ = jen.Var().Id("unused").Op("=").Add(v())
		return jen.Var().Id(name).Op("=").Lit(0)
	case 104:
		return jen.Var().Id(name).Op("=").Map(jen.Int()).Int().Values(jen.Dict{jen.List(): v()})
	default:
		return jen.Var().Id(name).Op("=").Map(jen.Int()).Int().Values(jen.DictFunc(func(d jen.Dict) {
			d[v()] = jen.Null()
			d[jen.Lit(5)] = jen.Lit(6)
		}))
	}
}

// Build constructs a fresh File with its body.
func (s *Scenario) Build() *jen.File {
	f := s.NewFile()
	switch s.EmptyBody {
	case 1:
		return f
	case 2:
		f.Add(jen.Null())
		f.Add(nil, jen.Tag(nil), jen.Add(), jen.Do(func(*jen.Statement) {}))
		f.Null()
		return f
	}
	f.Type().Id("V_Gen").Types(jen.Id("T").Any()).Struct()
	if s.LocalPath != "" {
		f.Var().Id(localSym).Op("=").Lit(1)
		f.Type().Id(localTyp).Op("=").Int()
	}
	for n, rf := range s.Refs {
		f.Add(s.RefCode(n, rf))
	}
	return f
}

// BuildStaged builds the File of the scenario in two stages with a render in between, the way a generator that prints
// what it has so far does: the paths at odd positions (unless they are "C", occur twice, or are named by an ImportNames
// table) get their ImportName / ImportAlias / Anon calls and their references only after the first render. No hint of
// the second stage concerns a path that the first render showed, so nothing the scenario says changes and the final
// output is judged like that of Build. Returns nil when there is nothing to defer.
func (s *Scenario) BuildStaged() *jen.File {
	if s.EmptyBody != 0 || len(s.Paths) < 2 {
		return nil
	}
	inNames, early := map[string]bool{}, map[string]bool{}
	for _, h := range s.Hints {
		if h.Op == "ImportNames" {
			for p := range h.Names {
				inNames[p] = true
			}
		}
	}
	for i, p := range s.Paths {
		if i%2 == 0 {
			early[p.Path] = true
		}
	}
	late := map[string]bool{}
	for i, p := range s.Paths {
		if i%2 == 1 && !inNames[p.Path] && !early[p.Path] && p.Path != "C" && p.Path != s.LocalPath {
			late[p.Path] = true
		}
	}
	if len(late) == 0 {
		return nil
	}
	first := *s
	first.Hints = nil
	var lateHints []Hint
	for _, h := range s.Hints {
		if (h.Op == "ImportName" || h.Op == "ImportAlias" || h.Op == "Anon") && late[h.Path] {
			lateHints = append(lateHints, h)
		} else {
			first.Hints = append(first.Hints, h)
		}
	}
	f := first.NewFile()
	f.Type().Id("V_Gen").Types(jen.Id("T").Any()).Struct()
	if s.LocalPath != "" {
		f.Var().Id(localSym).Op("=").Lit(1)
		f.Type().Id(localTyp).Op("=").Int()
	}
	isLate := func(rf Ref) bool { return rf.Path >= 0 && late[s.Paths[rf.Path].Path] }
	for n, rf := range s.Refs {
		if !isLate(rf) {
			f.Add(s.RefCode(n, rf))
		}
	}
	Render(f) // the intermediate output is not judged
	for _, h := range lateHints {
		switch h.Op {
		case "ImportName":
			f.ImportName(h.Path, h.Name)
		case "ImportAlias":
			f.ImportAlias(h.Path, h.Name)
		case "Anon":
			f.Anon(h.Path)
		}
	}
	for n, rf := range s.Refs {
		if isLate(rf) {
			f.Add(s.RefCode(n, rf))
		}
	}
	return f
}

type Spec struct {
	Name string // "" if no name written
	Path string
}

// Obs is what the oracle saw in one rendered file.
type Obs struct {
	Panic      string
	RenderErr  string
	ParseErr   string
	Out        string
	TypeErrs   []string
	Specs      []Spec
	PkgClause  string
	Qualifiers map[int]map[string]bool // path index -> qualifiers seen ("" = bare)
	WrongPkg   []string                // references that resolve to another package than they were built with
	Rendered   map[int]bool            // path indexes with at least one rendered reference
}

type importer map[string]*types.Package

func (im importer) Import(path string) (*types.Package, error) {
	if p, ok := im[path]; ok {
		return p, nil
	}
	return nil, fmt.Errorf("no fabricated package for %q", path)
}

// Packages fabricates one types.Package per path whose name is the ground truth.
func (s *Scenario) Packages() map[string]*types.Package {
	im := map[string]*types.Package{}
	for i, pi := range s.Paths {
		if pi.Path == "C" {
			continue
		}
		pk := types.NewPackage(pi.Path, pi.TrueName)
		pk.Scope().Insert(types.NewVar(token.NoPos, pk, sym(i), types.Typ[types.Int]))
		tn := types.NewTypeName(token.NoPos, pk, typ(i), nil)
		types.NewNamed(tn, types.Typ[types.Int], nil)
		pk.Scope().Insert(tn)
		pk.MarkComplete()
		im[pi.Path] = pk
	}
	return im
}

// Render renders f, catching panics.
func Render(f *jen.File) (out []byte, errText, panicText string) {
	buf := &bytes.Buffer{}
	var err error
	p, what := mon.Guard(func() { err = f.Render(buf) })
	if p {
		return nil, "", what
	}
	if err != nil {
		return nil, mon.Trunc(err.Error(), 1500), ""
	}
	return buf.Bytes(), "", ""
}

// Observe renders nothing itself: it analyses the bytes of a rendered file against the scenario.
func (s *Scenario) Observe(out []byte) *Obs {
	o := &Obs{Out: string(out), Qualifiers: map[int]map[string]bool{}, Rendered: map[int]bool{}}
	fset := token.NewFileSet()
	af, err := parser.ParseFile(fset, "out.go", out, parser.SkipObjectResolution)
	if err != nil {
		o.ParseErr = err.Error()
		return o
	}
	o.PkgClause = af.Name.Name
	for _, is := range af.Imports {
		p, _ := strconv.Unquote(is.Path.Value)
		sp := Spec{Path: p}
		if is.Name != nil {
			sp.Name = is.Name.Name
		}
		o.Specs = append(o.Specs, sp)
	}
	info := &types.Info{Uses: map[*ast.Ident]types.Object{}}
	conf := types.Config{Importer: importer(s.Packages()), FakeImportC: true, Error: func(e error) {
		if te, ok := e.(types.Error); ok {
			o.TypeErrs = append(o.TypeErrs, te.Msg)
		} else {
			o.TypeErrs = append(o.TypeErrs, e.Error())
		}
	}}
	pkgPath := s.LocalPath
	if pkgPath == "" {
		pkgPath = "scenario/main"
	}
	conf.Check(pkgPath, fset, []*ast.File{af}, info)
	// where does every SymNX / TypNX resolve to, and under which qualifier is it written?
	symIndex := func(name string) (int, bool) {
		if (strings.HasPrefix(name, "Sym") || strings.HasPrefix(name, "Typ")) && strings.HasSuffix(name, "X") {
			n, err := strconv.Atoi(name[3 : len(name)-1])
			return n, err == nil
		}
		return 0, false
	}
	qualified := map[*ast.Ident]bool{}
	ast.Inspect(af, func(n ast.Node) bool {
		se, ok := n.(*ast.SelectorExpr)
		if !ok {
			return true
		}
		if idx, ok := symIndex(se.Sel.Name); ok {
			qualified[se.Sel] = true
			q := "?"
			if id, ok := se.X.(*ast.Ident); ok {
				q = id.Name
			}
			o.note(idx, q)
			if idx < len(s.Paths) && s.Paths[idx].Path != "C" {
				if obj := info.Uses[se.Sel]; obj == nil || obj.Pkg() == nil || obj.Pkg().Path() != s.Paths[idx].Path {
					o.WrongPkg = append(o.WrongPkg, fmt.Sprintf("%s.%s does not resolve to %q", q, se.Sel.Name, s.Paths[idx].Path))
				}
			}
		}
		return true
	})
	ast.Inspect(af, func(n ast.Node) bool {
		id, ok := n.(*ast.Ident)
		if !ok || qualified[id] {
			return true
		}
		if idx, ok := symIndex(id.Name); ok {
			o.note(idx, "")
			if idx < len(s.Paths) {
				if obj := info.Uses[id]; obj == nil || obj.Pkg() == nil || obj.Pkg().Path() != s.Paths[idx].Path {
					o.WrongPkg = append(o.WrongPkg, fmt.Sprintf("bare %s does not resolve to %q", id.Name, s.Paths[idx].Path))
				}
			}
		}
		return true
	})
	sort.Strings(o.TypeErrs)
	return o
}

func (o *Obs) note(idx int, q string) {
	if o.Qualifiers[idx] == nil {
		o.Qualifiers[idx] = map[string]bool{}
	}
	o.Qualifiers[idx][q] = true
	o.Rendered[idx] = true
}

// Problem is one judged defect of a rendered scenario, tagged with the properties whose statement it refutes.
type Problem struct {
	Class string
	Props string // e.g. "C03,C05"
	Msg   string
}

// Judge applies every clause of C03–C06 to the observation.
func (s *Scenario) Judge(o *Obs) []Problem {
	var ps []Problem
	add := func(class, props, format string, a ...interface{}) {
		ps = append(ps, Problem{class, props, fmt.Sprintf(format, a...)})
	}
	if o.Panic != "" {
		add("panic", "C03,C04,C05,C06", "panic: %s", o.Panic)
		return ps
	}
	if o.RenderErr != "" {
		add("render-error", "C03,C04,C05,C06", "render error: %s", o.RenderErr)
		return ps
	}
	if o.ParseErr != "" {
		add("unparsable", "C03,C04,C05,C06", "output does not parse: %s", o.ParseErr)
		return ps
	}
	for _, e := range o.TypeErrs {
		switch {
		case strings.Contains(e, "imported and not used"):
			add("unused-import", "C03,C04", "type error: %s", e)
		case strings.Contains(e, "redeclared"):
			add("redeclared", "C03,C05", "type error: %s", e)
		case strings.Contains(e, "undefined") || strings.Contains(e, "undeclared") || strings.Contains(e, "not declared") || strings.Contains(e, "no fabricated package"):
			add("undefined", "C03,C04,C06", "type error: %s", e)
		default:
			add("type-error", "C03", "type error: %s", e)
		}
	}
	for _, w := range o.WrongPkg {
		add("wrong-package", "C03,C06", "%s", w)
	}
	anon := s.AnonSet()
	// import specs: exactness, uniqueness, legality
	seenPath := map[string]int{}
	seenName := map[string]string{}
	hasPreamble := false
	for _, h := range s.Hints {
		if h.Op == "CgoPreamble" {
			hasPreamble = true
		}
	}
	for _, sp := range o.Specs {
		seenPath[sp.Path]++
		if sp.Path == "C" {
			if sp.Name != "" {
				add("c-renamed", "C03,C05", `"C" imported under name %q`, sp.Name)
			}
			continue
		}
		if sp.Name != "" && sp.Name != "_" && sp.Name != "." {
			if !oracle.LegalImportName(sp.Name) {
				add("illegal-name", "C05", "import name %q for %q is a keyword, predeclared or not an identifier", sp.Name, sp.Path)
			}
			if other, dup := seenName[sp.Name]; dup {
				add("duplicate-name", "C05,C03", "import name %q used for %q and %q", sp.Name, other, sp.Path)
			}
			seenName[sp.Name] = sp.Path
		}
		if sp.Name == "" {
			// no alias written: the binding is the package's real name
			if i := s.pathIndex(sp.Path); i >= 0 {
				tn := s.Paths[i].TrueName
				if other, dup := seenName[tn]; dup {
					add("duplicate-name", "C05,C03", "un-aliased import %q (real name %q) collides with %q", sp.Path, tn, other)
				}
				seenName[tn] = sp.Path
				if !oracle.LegalImportName(tn) {
					add("illegal-name", "C05", "import %q left un-aliased although its real name %q is predeclared", sp.Path, tn)
				}
			}
		}
	}
	for p, n := range seenPath {
		if n > 1 {
			props := "C04"
			if s.IsDot(p) {
				props = "C04,C06" // a declared dot-import gives exactly one `. "path"` spec
			}
			add("duplicate-import", props, "path %q imported %d times", p, n)
		}
	}
	for i, pi := range s.Paths {
		rendered := o.Rendered[i]
		switch {
		case rendered && seenPath[pi.Path] == 0:
			add("missing-import", "C04,C03", "path %q is referenced in the output but not imported", pi.Path)
		case !rendered && !anon[pi.Path] && seenPath[pi.Path] > 0 && !(pi.Path == "C" && hasPreamble):
			add("superfluous-import", "C04", "path %q is imported but no rendered identifier refers to it and it was not Anon'd", pi.Path)
		case !rendered && anon[pi.Path] && seenPath[pi.Path] == 0:
			add("anon-missing", "C04", "anonymous import %q is missing", pi.Path)
		}
		if len(o.Qualifiers[i]) > 1 {
			add("qualifier-varies", "C03", "path %q is referred to by several qualifiers %v", pi.Path, keys(o.Qualifiers[i]))
		}
	}
	for _, sp := range o.Specs {
		if s.pathIndex(sp.Path) < 0 {
			add("unknown-import", "C04", "import of %q, which the scenario never mentioned", sp.Path)
		}
		if sp.Path == s.LocalPath && s.LocalPath != "" {
			add("local-imported", "C06", "the file's own package path %q is imported", sp.Path)
		}
	}
	// dot imports and local references are bare; everything else is qualified
	for i, pi := range s.Paths {
		if !o.Rendered[i] {
			continue
		}
		qs := o.Qualifiers[i]
		if s.IsDot(pi.Path) && pi.Path != "C" {
			if !qs[""] || len(qs) != 1 {
				add("dot-qualified", "C06", "dot-imported path %q rendered with qualifier(s) %v", pi.Path, keys(qs))
			}
			ok := false
			for _, sp := range o.Specs {
				if sp.Path == pi.Path && sp.Name == "." {
					ok = true
				}
			}
			if !ok {
				add("dot-spec", "C06", `dot-imported path %q has no 'import . %q' spec`, pi.Path, pi.Path)
			}
		} else if qs[""] {
			add("bare-nonlocal", "C06,C03", "path %q (not local, not a dot import) rendered as a bare identifier", pi.Path)
		}
		if pi.Path == "C" {
			for q := range qs {
				if q != "C" {
					add("c-qualifier", "C03", `"C" referenced as %q`, q)
				}
			}
		}
	}
	return ps
}

func keys(m map[string]bool) []string {
	var out []string
	for k := range m {
		out = append(out, strconv.Quote(k))
	}
	sort.Strings(out)
	return out
}

// Decisions classifies how each rendered path got its name (evidence only).
func (s *Scenario) Decisions(o *Obs) map[string]int {
	d := map[string]int{}
	for _, sp := range o.Specs {
		i := s.pathIndex(sp.Path)
		if i < 0 {
			continue
		}
		h, hinted := s.EffectiveHint(sp.Path)
		switch {
		case sp.Name == "_":
			d["anon"]++
		case sp.Name == ".":
			d["dot"]++
		case sp.Path == "C":
			d["cgo"]++
		case sp.Name == "" && hinted:
			d["true-name-via-hint"]++
		case sp.Name == "" && s.Paths[i].Std:
			d["std-table"]++
		case sp.Name == "":
			d["unaliased-other"]++
		case hinted && h.Op == "ImportAlias" && sp.Name == h.Name:
			d["explicit-alias-kept"]++
		case hinted && h.Op == "ImportAlias" && s.Prefix != "" && sp.Name == s.Prefix+"_"+h.Name:
			d["explicit-alias-prefixed"]++
		case hinted:
			d["hint-replaced"]++
		case s.Prefix != "" && strings.HasPrefix(sp.Name, s.Prefix+"_"):
			d["guessed-prefixed"]++
		default:
			d["guessed-or-uniquified"]++
		}
	}
	return d
}
