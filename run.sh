#!/bin/bash
# usage: run.sh <id> quick|thorough      run the monitor of one property against /repo's working tree
#        run.sh <id> --replay <file>     re-execute one recorded case verbosely
# exit: 0 held, 1 violated (with a VIOLATION line), 2 inconclusive
set -u
ID="${1:?property id}"; MODE="${2:?quick|thorough|--replay}"
export GOFLAGS=-mod=mod GOPROXY=off GOSUMDB=off GOTOOLCHAIN=local
mkdir -p /verif/evidence/race
export GORACE="${GORACE:-halt_on_error=0 exitcode=0 log_path=/verif/evidence/race/$ID}"
cd /verif/harness || exit 2
mkdir -p /verif/bin /verif/evidence
# VERIF_REPO (tooling only, never set by the registered commands): monitor a scratch copy instead of /repo
REPO="${VERIF_REPO:-/repo}"
MODFLAG=""
MODFILE=""
if [ "$REPO" != /repo ]; then
  MODFILE="/verif/bin/go-$ID-$$.mod"
  sed "s#=> /repo#=> $REPO#" go.mod > "$MODFILE"
  MODFLAG="-modfile=$MODFILE"
  export VERIF_REPO
fi
BIN="/verif/bin/vcheck-$ID-$$"
RACE=""
# C09 always runs under the race detector; the history checks C08 and C20 (they mutate shared trees) do so in the thorough tier
case "$ID:$MODE" in C09:*|C08:thorough|C20:thorough) RACE="-race";; esac
if [ "${VERIF_RACE:-0}" = 1 ]; then RACE="-race"; fi
trap 'rm -f "$BIN" $MODFILE "/verif/bin/go-$ID-$$.sum" "/verif/bin/api_gen-$ID-$$.go" "/verif/bin/overlay-$ID-$$.json"' EXIT INT TERM
LOG="/verif/bin/build-$ID-$$.log"
# the table of package-level constructors is regenerated from /repo/jen, so that it matches the tree under test
APITAG=""
OVERLAY=""
APIGEN="/verif/bin/api_gen-$ID-$$.go"
OVJSON="/verif/bin/overlay-$ID-$$.json"
if go run $MODFLAG ./cmd/apigen -dir "$REPO/jen" -o "$APIGEN" >"$LOG" 2>&1; then
  APITAG="apigen"
  printf '{"Replace": {"/verif/harness/cmd/vcheck/api_gen.go": "%s"}}\n' "$APIGEN" > "$OVJSON"
  OVERLAY="-overlay=$OVJSON"
else
  echo "note: API table could not be generated from $REPO/jen; using the committed fallback table"
fi
if ! go build $MODFLAG $OVERLAY $RACE -tags "verif $APITAG" -o "$BIN" ./cmd/vcheck >"$LOG" 2>&1; then
  # the hook file may not follow an internal refactor: fall back to boundary-only monitoring
  if ! go build $MODFLAG $OVERLAY $RACE -tags "$APITAG" -o "$BIN" ./cmd/vcheck >>"$LOG" 2>&1 && ! go build $MODFLAG $RACE -o "$BIN" ./cmd/vcheck >>"$LOG" 2>&1; then
    cat "$LOG"; rm -f "$LOG"
    echo "INCONCLUSIVE property=$ID reason=harness-or-repo-does-not-build"
    exit 2
  fi
  echo "note: built without the verif tag (hook file does not compile against this tree)"
fi
rm -f "$LOG"
export VERIF_BIN="$BIN"
if [ "$MODE" = "--replay" ]; then
  "$BIN" "$ID" --replay "${3:?replay file}"
  exit $?
fi
LIMIT=900; [ "$MODE" = thorough ] && LIMIT=5400
CRASHLOG="/verif/bin/run-$ID-$$.log"
timeout -s QUIT -k 10 "$LIMIT" "$BIN" "$ID" --tier "$MODE" 2>&1 | tee "$CRASHLOG"
RC=${PIPESTATUS[0]}
# The Go runtime aborts the whole process when it detects unsynchronised map access ("fatal error: concurrent map
# writes" cannot be recovered). If that happens inside jennifer while independent Files are being built or rendered
# concurrently, it is a data race in jennifer: a violation of C09 (and of no other property), not a harness failure.
# (a crashed Go process exits with status 2 as well: the monitor's own "inconclusive" always prints an INCONCLUSIVE line)
DIED=0
if [ $RC -ne 0 ] && [ $RC -ne 1 ] && ! { [ $RC -eq 2 ] && grep -q "^INCONCLUSIVE property=" "$CRASHLOG"; }; then DIED=1; fi
if [ $DIED -eq 1 ] && grep -q "^fatal error: concurrent map" "$CRASHLOG" && grep -q "dave/jennifer/jen\." "$CRASHLOG"; then
  mkdir -p /verif/evidence/replay
  W="/verif/evidence/replay/$ID-runtime-abort-$$.log"
  cp "$CRASHLOG" "$W"; rm -f "$CRASHLOG"
  if [ "$ID" = C09 ]; then
    echo "VIOLATION property=C09 replay=$W"
    echo "  class=data-race: the Go runtime aborted the process: $(grep -m1 '^fatal error' "$W") inside jennifer (goroutine dump in the replay file)"
    if [ "${VERIF_NOEVIDENCE:-0}" != 1 ]; then
      printf '{"property_id":"C09","tier":"%s","seed":%s,"level":"exploration","coverage":{"evaluations":1,"distinct_nontrivial":2,"rule":"the run was cut short by a runtime abort inside jennifer (unsynchronised map access while Files were handled concurrently); see violation_witnesses","samples":["%s"],"verdict":"violated","violation_witnesses":["%s"]},"assumptions":[],"wall_s":0,"violations":1}\n' "$MODE" "${VERIF_SEED:-1}" "$W" "$W" > /verif/evidence/C09.json
    fi
    exit 1
  fi
  echo "INCONCLUSIVE property=$ID reason=runtime-abort-concurrent-map-access-in-jennifer-(see-C09) log=$W"
  exit 2
fi
rm -f "$CRASHLOG"
if [ $RC -eq 124 ] || [ $RC -eq 131 ] || [ $RC -eq 137 ]; then
  echo "INCONCLUSIVE property=$ID reason=watchdog-fired-after-${LIMIT}s"
  exit 2
fi
if [ $DIED -eq 1 ]; then
  echo "INCONCLUSIVE property=$ID reason=monitor-process-died-rc-$RC"
  exit 2
fi
exit $RC
