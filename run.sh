#!/bin/bash
# usage: run.sh <id> quick|thorough      run the monitor of one property against /repo's working tree
#        run.sh <id> --replay <file>     re-execute one recorded case verbosely
# exit: 0 held, 1 violated (with a VIOLATION line), 2 inconclusive
set -u
ID="${1:?property id}"; MODE="${2:?quick|thorough|--replay}"
export GOFLAGS=-mod=mod GOPROXY=off GOSUMDB=off GOTOOLCHAIN=local
mkdir -p /verif/evidence/race
export GORACE="${GORACE:-halt_on_error=0 exitcode=0 log_path=/verif/evidence/race/$ID}"
cd /verif/harness || exit 2
mkdir -p /verif/bin /verif/evidence
BIN="/verif/bin/vcheck-$ID-$$"
RACE=""
case "$ID" in C09) RACE="-race";; esac
if [ "${VERIF_RACE:-0}" = 1 ]; then RACE="-race"; fi
trap 'rm -f "$BIN"' EXIT
LOG="/verif/bin/build-$ID-$$.log"
# the table of package-level constructors is regenerated from /repo/jen, so that it matches the tree under test
APITAG=""
if go run ./cmd/apigen -o "cmd/vcheck/api_gen.go.$$" >"$LOG" 2>&1 && mv -f "cmd/vcheck/api_gen.go.$$" cmd/vcheck/api_gen.go; then
  APITAG="apigen"
else
  rm -f "cmd/vcheck/api_gen.go.$$"
  echo "note: API table could not be generated from /repo/jen; using the committed fallback table"
fi
if ! go build $RACE -tags "verif $APITAG" -o "$BIN" ./cmd/vcheck >"$LOG" 2>&1; then
  # the hook file may not follow an internal refactor: fall back to boundary-only monitoring
  if ! go build $RACE -tags "$APITAG" -o "$BIN" ./cmd/vcheck >>"$LOG" 2>&1 && ! go build $RACE -o "$BIN" ./cmd/vcheck >>"$LOG" 2>&1; then
    cat "$LOG"; rm -f "$LOG"
    echo "INCONCLUSIVE property=$ID reason=harness-or-repo-does-not-build"
    exit 2
  fi
  echo "note: built without the verif tag (hook file does not compile against this tree)"
fi
rm -f "$LOG"
export VERIF_BIN="$BIN"
if [ "$MODE" = "--replay" ]; then
  exec "$BIN" "$ID" --replay "${3:?replay file}"
fi
LIMIT=900; [ "$MODE" = thorough ] && LIMIT=5400
timeout -s QUIT -k 10 "$LIMIT" "$BIN" "$ID" --tier "$MODE"
RC=$?
if [ $RC -eq 124 ] || [ $RC -eq 131 ] || [ $RC -eq 137 ]; then
  echo "INCONCLUSIVE property=$ID reason=watchdog-fired-after-${LIMIT}s"
  exit 2
fi
if [ $RC -ne 0 ] && [ $RC -ne 1 ] && [ $RC -ne 2 ]; then
  echo "INCONCLUSIVE property=$ID reason=monitor-process-died-rc-$RC"
  exit 2
fi
exit $RC
